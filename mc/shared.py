"""Object reuse as an enumeration axis.

Checks build every reader / writer through `obj(cls, *args, **kw)`. Normally that is a fresh object. Inside a *reuse
run* the same object is handed out again for the same (class, constructor arguments), so that one reader / writer
object processes a whole sequence of different inputs - with the check's ordinary oracle applied to every step.
A violation found at step n of a reuse run is recorded with the case {"reuse": True, "index": n}; its replay re-runs
the sequence up to step n on new shared objects (the history is the counterexample).
"""
_cache = None


def obj(cls, *args, **kw):
    if _cache is None:
        return cls(*args, **kw)
    key = (cls.__module__, cls.__qualname__, repr(args), repr(sorted(kw.items())))
    if key not in _cache:
        _cache[key] = cls(*args, **kw)
    return _cache[key]


def begin():
    global _cache
    _cache = {}


def end():
    global _cache
    _cache = None


def run(acc, items, eval_fn, upto=None, sample=None, between=None):
    """items: list of argument tuples; eval_fn(item) -> (list of (signature, detail), outcome).
    A step that also fails with FRESH objects is not attributed to reuse (it is reported by the ordinary enumeration),
    so a violation reported here is caused by the earlier steps.
    between: optional callable run before every third step inside the reuse context (e.g. the shared reader is given a
    document it rejects); whatever it raises is ignored - only its effect on the shared objects matters."""
    begin()
    out = []
    try:
        for i, item in enumerate(items):
            if upto is not None and i > upto:
                break
            if between is not None and i % 3 == 2:
                try:
                    between()
                except Exception:  # noqa
                    pass
            v, outcome = eval_fn(item)
            if acc is not None:
                acc.case(("reuse", i), True, outcome, sample(item) if sample and i < 2 else None)
            if v:
                # does the same step fail with fresh objects too? then it is not a reuse effect (reported elsewhere)
                saved = _cache
                end()
                try:
                    v_fresh, _ = eval_fn(item)
                finally:
                    globals()["_cache"] = saved
                fresh_sigs = {s for s, _ in v_fresh}
                for sig, det in v:
                    if sig in fresh_sigs:
                        continue
                    entry = (sig + "/reader-or-writer-object-reused", {"reuse": True, "index": i}, det)
                    out.append(entry)
                    if acc is not None:
                        acc.violation(*entry)
                # start over with new shared objects so that one defect does not mask later steps
                begin()
    finally:
        end()
    return out


def replay(items, eval_fn, index, between=None):
    got = run(None, items, eval_fn, upto=index, between=between)
    return [{"sig": s, "detail": d} for s, c, d in got if c["index"] == index]
