"""Process-level sharding.

Every check module exposes  shards(tier, seed) -> [descriptor]  and  run_shard(descriptor) -> dict
(built with mc.acc.Acc).  Shards run in *spawned* interpreters (never forked), so that each worker
imports pycaption afresh from /repo and so that PYTHONHASHSEED can be fixed per worker.
A descriptor may carry its own environment under the key "_env" (e.g. {"PYTHONHASHSEED": "3"});
shards with the same environment share a pool.
"""
import importlib
import json
import multiprocessing as mp
import os
import sys
import traceback

VERIF = os.path.dirname(os.path.dirname(os.path.abspath(__file__)))


def _init(verif):
    if verif not in sys.path:
        sys.path.insert(0, verif)
    sys.dont_write_bytecode = True
    sys.setrecursionlimit(10000)
    import warnings

    warnings.filterwarnings("ignore")
    import logging

    logging.disable(logging.CRITICAL)


def _call(args):
    modname, fn, desc = args
    try:
        mod = importlib.import_module(modname)
        res = getattr(mod, fn)(desc)
        if fn == "run_shard" and isinstance(res, dict):
            for v in res.get("violations", []):
                v["_shard"] = desc  # lets the runner re-execute the whole shard when the case alone does not reproduce
        return res
    except BaseException:  # noqa
        return {"_error": f"{modname}.{fn}({json.dumps(desc, default=str)[:300]}):\n" + traceback.format_exc()}


def _pool(procs, env, maxtasks=None):
    ctx = mp.get_context("spawn")
    saved = {}
    base = {"PYTHONHASHSEED": "0", "PYTHONDONTWRITEBYTECODE": "1"}
    base.update(env or {})
    for k, v in base.items():
        saved[k] = os.environ.get(k)
        if v is None:
            os.environ.pop(k, None)
        else:
            os.environ[k] = v
    try:
        pool = ctx.Pool(procs, initializer=_init, initargs=(VERIF,), maxtasksperchild=maxtasks)
    finally:
        for k, v in saved.items():
            if v is None:
                os.environ.pop(k, None)
            else:
                os.environ[k] = v
    return pool


def run_shards(modname, shards, procs=16, env=None):
    groups = {}
    for d in shards:
        e = dict(env or {})
        if isinstance(d, dict) and "_env" in d:
            e.update(d["_env"])
        groups.setdefault(json.dumps(e, sort_keys=True), []).append(d)
    out = []
    pools = []
    asyncs = []
    total = sum(len(ds) for ds in groups.values()) or 1
    for key, ds in groups.items():
        e = json.loads(key)
        # every shard runs in a brand-new interpreter: whatever process-global state a shard leaves behind cannot leak
        # into another shard, so "re-run the shard" reproduces any history-dependent violation found in it
        maxtasks = 1
        # processes proportional to the group's share of the shards (at least one)
        per = procs if len(groups) == 1 else max(1, round(procs * len(ds) / total))
        p = _pool(min(per, len(ds)) or 1, e, maxtasks)
        pools.append(p)
        asyncs.append(p.imap_unordered(_call, [(modname, "run_shard", d) for d in ds], chunksize=1))
    for it in asyncs:
        for r in it:
            out.append(r)
    for p in pools:
        p.close()
        p.join()
    return out


def confirm(modname, cases):
    """Re-run each candidate case in a brand-new interpreter (one process per case)."""
    if not cases:
        return []
    p = _pool(min(8, len(cases)), None, maxtasks=1)
    try:
        res = p.map(_call, [(modname, "replay", c) for c in cases], chunksize=1)
    finally:
        p.close()
        p.join()
    out = []
    for r in res:
        if isinstance(r, dict) and "_error" in r:
            out.append([{"sig": "_error", "detail": r["_error"]}])
        else:
            out.append(r or [])
    return out


def confirm_in_shard(modname, shard, sig):
    """Re-runs one whole shard in a brand-new interpreter and reports whether the signature shows up again.
    Used for violations that do not reproduce from their case alone: the earlier cases of the shard (process-level
    state they left behind) are part of the counterexample."""
    env = shard.get("_env") if isinstance(shard, dict) else None
    p = _pool(1, env, maxtasks=1)
    try:
        res = p.map(_call, [(modname, "run_shard", shard)], chunksize=1)[0]
    finally:
        p.close()
        p.join()
    if not isinstance(res, dict) or "_error" in res:
        return False
    return any(v["sig"] == sig for v in res.get("violations", []))


def aggregate(results):
    agg = {
        "evaluations": 0,
        "distinct_nontrivial": 0,
        "states": 0,
        "transitions": 0,
        "traces": 0,
        "violations": [],
        "samples": [],
        "exhaustive": True,
        "caps_hit": [],
        "counters": {},
        "errors": [],
        "extra": [],
    }
    outcomes = set()
    for r in results:
        if "_error" in r:
            agg["errors"].append(r["_error"])
            agg["exhaustive"] = False
            continue
        for k in ("evaluations", "distinct_nontrivial", "states", "transitions", "traces"):
            agg[k] += int(r.get(k, 0))
        agg["violations"].extend(r.get("violations", []))
        if len(agg["samples"]) < 12:
            agg["samples"].extend(r.get("samples", [])[:2])
        outcomes.update(r.get("outcomes", []))
        agg["exhaustive"] = agg["exhaustive"] and bool(r.get("exhaustive", True))
        agg["caps_hit"].extend(r.get("caps_hit", []))
        for k, v in r.get("counters", {}).items():
            agg["counters"][k] = agg["counters"].get(k, 0) + v
        if "extra" in r:
            agg["extra"].append(r["extra"])
    agg["distinct_outcomes"] = len(outcomes)
    return agg
