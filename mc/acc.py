"""Per-shard accumulator: counts what was explored and collects violations."""
import hashlib
import json


def h8(x):
    if not isinstance(x, (bytes, str)):
        x = json.dumps(x, sort_keys=True, ensure_ascii=False, default=str)
    if isinstance(x, str):
        x = x.encode("utf-8", "surrogatepass")
    return hashlib.blake2b(x, digest_size=8).hexdigest()


class Acc:
    MAX_VIOL_PER_SIG = 3
    MAX_OUTCOMES = 20000

    def __init__(self):
        self.evaluations = 0
        self._keys = set()
        self.states = 0
        self.transitions = 0
        self.traces = 0
        self.violations = []
        self._per_sig = {}
        self.samples = []
        self.outcomes = set()
        self.exhaustive = True
        self.caps_hit = []
        self.counters = {}
        self.extra = None

    # -- counting ---------------------------------------------------------------------------
    def case(self, key, nontrivial=True, outcome=None, sample=None):
        """Register one explored case. key identifies it (for distinctness)."""
        self.evaluations += 1
        if nontrivial:
            self._keys.add(h8(key))
        if outcome is not None and len(self.outcomes) < self.MAX_OUTCOMES:
            self.outcomes.add(h8(outcome))
        if sample is not None and len(self.samples) < 3:
            self.samples.append(sample)

    def count(self, name, n=1):
        self.counters[name] = self.counters.get(name, 0) + n

    def cap(self, what):
        self.exhaustive = False
        self.caps_hit.append(what)

    def violation(self, sig, case, detail=None):
        n = self._per_sig.get(sig, 0)
        self._per_sig[sig] = n + 1
        if n < self.MAX_VIOL_PER_SIG:
            self.violations.append({"sig": sig, "case": case, "detail": detail})

    def result(self):
        return {
            "evaluations": self.evaluations,
            "distinct_nontrivial": len(self._keys),
            "states": self.states,
            "transitions": self.transitions,
            "traces": self.traces,
            "violations": self.violations,
            "samples": self.samples,
            "outcomes": sorted(self.outcomes),
            "exhaustive": self.exhaustive,
            "caps_hit": self.caps_hit,
            "counters": dict(self.counters, **{f"violations[{k}]": v for k, v in self._per_sig.items()}),
            "extra": self.extra,
        }
