"""Reflective canonical dumps / digests of Python object graphs (no pycaption attribute names are hard-coded).

dump(obj)       -> nested, hashable, order-preserving structure; object identity is replaced by the index of the
                   first visit, so aliasing between parts of the graph is part of the dump.
digest(obj)     -> short hex digest of dump(obj)
global_state()  -> digest-able dump of every piece of mutable state reachable from the loaded pycaption modules:
                   module globals, class attributes, function defaults (incl. methods). A scratch container hoisted
                   to module or class scope by a later change is covered because nothing is enumerated by name.
"""
import enum
import hashlib
import sys
import types

_PRIMS = (int, float, str, bytes, bool, type(None), complex)


def dump(obj, memo=None, depth=0):
    if memo is None:
        memo = {}
    if isinstance(obj, _PRIMS):
        return obj if not isinstance(obj, float) else ("f", repr(obj))
    if isinstance(obj, enum.Enum):
        return ("enum", type(obj).__name__, obj.name)
    if isinstance(obj, (type, types.FunctionType, types.BuiltinFunctionType, types.ModuleType)):
        return ("ref", getattr(obj, "__module__", None), getattr(obj, "__qualname__", getattr(obj, "__name__", "?")))
    if isinstance(obj, types.MethodType):
        return ("method", obj.__func__.__qualname__, dump(obj.__self__, memo, depth + 1) if depth < 40 else "...")
    oid = id(obj)
    if oid in memo:
        return ("alias", memo[oid])
    memo[oid] = len(memo)
    if depth > 60:
        return ("deep", type(obj).__name__)
    # bs4 / lxml objects: by their serialisation
    mod = type(obj).__module__ or ""
    if mod.startswith("bs4") or mod.startswith("lxml"):
        try:
            return ("markup", type(obj).__name__, str(obj))
        except Exception:  # noqa
            return ("markup", type(obj).__name__)
    if isinstance(obj, dict):
        return ("dict", type(obj).__name__, tuple((dump(k, memo, depth + 1), dump(v, memo, depth + 1)) for k, v in obj.items())) + _attrs(obj, memo, depth)
    if isinstance(obj, (list, tuple)) or type(obj).__name__ == "deque":
        return ("seq", type(obj).__name__, tuple(dump(x, memo, depth + 1) for x in obj)) + _attrs(obj, memo, depth)
    if isinstance(obj, (set, frozenset)):
        return ("set", tuple(sorted((repr(dump(x, memo, depth + 1)) for x in obj))))
    if isinstance(obj, type(sys.implementation)) or isinstance(obj, (types.GeneratorType,)):
        return ("opaque", type(obj).__name__)
    d = getattr(obj, "__dict__", None)
    if d is not None:
        return ("obj", type(obj).__name__, tuple((k, dump(v, memo, depth + 1)) for k, v in sorted(d.items(), key=lambda kv: kv[0])))
    slots = getattr(type(obj), "__slots__", None)
    if slots:
        return ("obj", type(obj).__name__, tuple((k, dump(getattr(obj, k, None), memo, depth + 1)) for k in slots))
    try:
        return ("repr", type(obj).__name__, repr(obj))
    except Exception:  # noqa
        return ("opaque", type(obj).__name__)


def _attrs(obj, memo, depth):
    d = getattr(obj, "__dict__", None)
    if d:
        return (("attrs", tuple((k, dump(v, memo, depth + 1)) for k, v in sorted(d.items()))),)
    return ()


def digest(obj):
    return hashlib.blake2b(repr(dump(obj)).encode("utf-8", "surrogatepass"), digest_size=10).hexdigest()


def _is_state(v):
    if isinstance(v, (type, types.FunctionType, types.BuiltinFunctionType, types.ModuleType, types.MethodType, staticmethod, classmethod, property)):
        return False
    if isinstance(v, _PRIMS + (enum.Enum,)):
        return True
    return True


def global_state(prefix="pycaption"):
    """-> dict name -> digest of every global / class attribute / default-argument object of the loaded modules"""
    out = {}
    for mname, mod in sorted(sys.modules.items()):
        if not (mname == prefix or mname.startswith(prefix + ".")) or mod is None:
            continue
        for gname, val in sorted(vars(mod).items()):
            if gname.startswith("__"):
                continue
            if isinstance(val, types.ModuleType):
                continue
            if isinstance(val, type):
                if val.__module__ != mname:
                    continue
                for aname, aval in sorted(vars(val).items()):
                    if aname.startswith("__") and aname not in ("__init__",):
                        continue
                    f = aval
                    if isinstance(f, (staticmethod, classmethod)):
                        f = f.__func__
                    if isinstance(f, types.FunctionType):
                        if f.__defaults__ or f.__kwdefaults__:
                            out[f"{mname}.{gname}.{aname}:defaults"] = _fast((f.__defaults__, f.__kwdefaults__))
                        if f.__closure__:
                            out[f"{mname}.{gname}.{aname}:closure"] = _fast(tuple(c.cell_contents for c in f.__closure__ if _cell_ok(c)))
                    elif isinstance(f, property):
                        continue
                    else:
                        out[f"{mname}.{gname}.{aname}"] = _fast(aval)
            elif isinstance(val, types.FunctionType):
                if val.__module__ != mname:
                    continue
                if val.__defaults__ or val.__kwdefaults__:
                    out[f"{mname}.{gname}:defaults"] = _fast((val.__defaults__, val.__kwdefaults__))
                if vars(val):
                    out[f"{mname}.{gname}:attrs"] = _fast(vars(val))
            else:
                tm = type(val).__module__ or ""
                if not (tm == "builtins" or tm.startswith(prefix) or tm in ("collections", "enum", "re")):
                    continue  # a foreign object imported into the namespace (e.g. a third-party logger)
                out[f"{mname}.{gname}"] = _fast(val)
    return out


def _cell_ok(c):
    try:
        c.cell_contents
        return True
    except ValueError:
        return False


def _fast(v):
    # plain containers of primitives: in-process fingerprint through hash() (fast path for the big constant
    # tables; only ever compared within one process), else through repr
    try:
        if isinstance(v, dict) and len(v) > 50:
            return ("h", len(v), hash(tuple((k, x if isinstance(x, _PRIMS) else (tuple(x.items()) if isinstance(x, dict) else tuple(x))) for k, x in v.items())))
    except TypeError:
        pass
    try:
        if isinstance(v, (dict, list, tuple, set, frozenset)) and _flat(v, 0):
            r = repr(sorted(v, key=repr)) if isinstance(v, (set, frozenset)) else repr(v)
            return hashlib.blake2b(r.encode("utf-8", "surrogatepass"), digest_size=10).hexdigest()
    except Exception:  # noqa
        pass
    return digest(v)


def _flat(v, depth):
    if depth > 3:
        return False
    if isinstance(v, dict):
        return all(isinstance(k, _PRIMS) and (isinstance(x, _PRIMS) or (isinstance(x, (dict, list, tuple)) and _flat(x, depth + 1))) for k, x in v.items())
    if isinstance(v, (list, tuple, set, frozenset)):
        return all(isinstance(x, _PRIMS) or (isinstance(x, (dict, list, tuple)) and _flat(x, depth + 1)) for x in v)
    return False


def diff_state(a, b):
    return sorted(k for k in set(a) | set(b) if a.get(k) != b.get(k))


def global_roots(prefix="pycaption"):
    """yields every object that global_state() digests (module globals, class attributes, defaults, closure cells)"""
    for mname, mod in sorted(sys.modules.items()):
        if not (mname == prefix or mname.startswith(prefix + ".")) or mod is None:
            continue
        for gname, val in vars(mod).items():
            if gname.startswith("__") or isinstance(val, types.ModuleType):
                continue
            if isinstance(val, type):
                if val.__module__ != mname:
                    continue
                for aname, aval in vars(val).items():
                    f = aval.__func__ if isinstance(aval, (staticmethod, classmethod)) else aval
                    if isinstance(f, types.FunctionType):
                        yield f.__defaults__
                        yield f.__kwdefaults__
                        if f.__closure__:
                            for c in f.__closure__:
                                if _cell_ok(c):
                                    yield c.cell_contents
                    elif not aname.startswith("__") and not isinstance(f, property):
                        yield aval
            elif isinstance(val, types.FunctionType):
                if val.__module__ == mname:
                    yield val.__defaults__
                    yield val.__kwdefaults__
            else:
                yield val


def mutable_objects(root, prefix="pycaption"):
    """id -> object for every mutable container (dict / list / set / deque, and instances of classes defined in the
    library other than its geometry value objects) reachable from root"""
    seen = {}
    visited = set()
    stack = [root]
    while stack:
        o = stack.pop()
        if o is None or isinstance(o, _PRIMS + (enum.Enum, type, types.FunctionType, types.BuiltinFunctionType, types.ModuleType, types.MethodType)):
            continue
        if id(o) in visited:
            continue
        visited.add(id(o))
        mod = type(o).__module__ or ""
        if mod.startswith(prefix + ".geometry") or mod.startswith("bs4") or mod.startswith("lxml") or mod.startswith("re"):
            continue
        if isinstance(o, dict):
            seen[id(o)] = o
            stack.extend(o.values())
            if getattr(o, "__dict__", None):
                stack.extend(vars(o).values())
        elif isinstance(o, (list, set)) or type(o).__name__ == "deque":
            seen[id(o)] = o
            stack.extend(o)
            if getattr(o, "__dict__", None):
                stack.extend(vars(o).values())
        elif isinstance(o, (tuple, frozenset)):
            stack.extend(o)
        elif mod.startswith(prefix) and getattr(o, "__dict__", None) is not None:
            seen[id(o)] = o
            stack.extend(vars(o).values())
    return seen
