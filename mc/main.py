"""Entry point of every check:  ./check <ID> [--tier quick|thorough] [--replay FILE]

Contract (see DESIGN.md 2.3):
  exit 0  property held on everything explored (KNOWN-FINDING lines may be printed)
  exit 1  + line "VIOLATION property=<id> replay=<path>" for each new violation class
  exit 2  harness error (a candidate violation did not reproduce in a fresh process, ...)
The evidence file /verif/evidence/<ID>.json is rewritten on every run.
"""
import argparse
import hashlib
import importlib
import json
import os
import subprocess
import sys
import time

VERIF = os.path.dirname(os.path.dirname(os.path.abspath(__file__)))
REPO = os.environ.get("VERIF_REPO", "/repo")
if VERIF not in sys.path:
    sys.path.insert(0, VERIF)

import warnings  # noqa: E402

warnings.filterwarnings("ignore")

from mc import workers  # noqa: E402


def _assert_repo_binding():
    import pycaption

    here = os.path.realpath(os.path.dirname(pycaption.__file__))
    want = os.path.realpath(os.path.join(REPO, "pycaption"))
    if here != want:
        print(f"HARNESS-ERROR pycaption resolves to {here}, expected {want}")
        sys.exit(2)


def _git_state():
    def run(*a):
        try:
            return subprocess.run(
                ["git", "-C", REPO] + list(a), capture_output=True, text=True, timeout=30
            ).stdout
        except Exception:  # pragma: no cover
            return ""

    head = run("rev-parse", "HEAD").strip()
    diff = run("diff", "HEAD", "--", "pycaption")
    return head, hashlib.sha256(diff.encode()).hexdigest()[:16], bool(diff.strip())


def load_known(prop):
    path = os.path.join(VERIF, "known_findings.json")
    if not os.path.exists(path):
        return {}, []
    data = json.load(open(path))
    known, fixed = {}, []
    for e in data.get("findings", []):
        if e.get("property") != prop:
            continue
        if e.get("status") == "known":
            known[e["signature"]] = e
        else:
            fixed.append(e)
    return known, fixed


def main(argv=None):
    ap = argparse.ArgumentParser()
    ap.add_argument("prop")
    ap.add_argument("--tier", default=None)
    ap.add_argument("--replay", default=None)
    ap.add_argument("--procs", type=int, default=int(os.environ.get("VERIF_PROCS", "16")))
    args = ap.parse_args(argv)
    prop = args.prop.upper()
    tier = args.tier or os.environ.get("VERIF_TIER") or "quick"
    if tier not in ("quick", "thorough"):
        tier = "quick"
    try:
        seed = int(os.environ.get("VERIF_SEED", "0"))
    except ValueError:
        seed = 0

    _assert_repo_binding()
    mod = importlib.import_module(f"mc.checks.{prop.lower()}")

    if args.replay:
        return do_replay(mod, prop, args.replay)

    t0 = time.time()
    head, diffhash, dirty = _git_state()
    shards = mod.shards(tier, seed)
    # VERIF_SEED only rotates the order in which shards are handed out.
    if shards:
        k = seed % len(shards)
        shards = shards[k:] + shards[:k]
    res = workers.run_shards(mod.__name__, shards, procs=args.procs, env=getattr(mod, "ENV", None))
    agg = workers.aggregate(res)
    if hasattr(mod, "finish"):
        mod.finish(agg, tier, seed)

    # ---- confirm candidates in a fresh process -------------------------------------------
    by_sig = {}
    for v in agg["violations"]:
        by_sig.setdefault(v["sig"], []).append(v)
    harness_errors = []
    if by_sig and not getattr(mod, "SKIP_CONFIRM", False):
        to_confirm = [vs[0] for vs in by_sig.values()][:40]
        confirmed = workers.confirm(mod.__name__, [v["case"] for v in to_confirm])
        for v, got in zip(to_confirm, confirmed):
            if not any(g["sig"] == v["sig"] for g in got):
                # not reproducible from the case alone: is it reproducible as part of its shard's sequence?
                if v.get("_shard") is not None and workers.confirm_in_shard(mod.__name__, v["_shard"], v["sig"]):
                    old = v["sig"]
                    new = old + "/only-after-earlier-cases-in-the-same-process"
                    for w in by_sig[old]:
                        w["sig"] = new
                        w["case"] = {"_history_dependent": True, "shard": v["_shard"], "signature": old, "case": w["case"]}
                    by_sig[new] = by_sig.pop(old)
                else:
                    harness_errors.append((v, got))
                    by_sig.pop(v["sig"])  # never reported as a violation

    known, fixed = load_known(prop)
    new_sigs = [s for s in by_sig if s not in known]
    lines = []
    for s in sorted(by_sig):
        if s in known:
            e = known[s]
            lines.append(
                f"KNOWN-FINDING: property={prop} {s}: {e.get('what', '')} "
                f"[{len(by_sig[s])} case(s) this run; e.g. {json.dumps(by_sig[s][0]['case'], ensure_ascii=False)[:160]}]"
            )
    rdir = os.path.join(VERIF, "replays", prop)
    for s in sorted(new_sigs):
        os.makedirs(rdir, exist_ok=True)
        h = hashlib.sha256(s.encode()).hexdigest()[:12]
        path = os.path.join(rdir, f"{h}.json")
        v = by_sig[s][0]
        json.dump(
            {
                "property": prop,
                "signature": s,
                "case": v["case"],
                "detail": v.get("detail"),
                "count_this_run": len(by_sig[s]),
                "replay_cmd": f"./check {prop} --replay {path}",
            },
            open(path, "w"),
            indent=1,
            ensure_ascii=False,
            default=str,
        )
        lines.append(f"VIOLATION property={prop} replay={path}")
        lines.append(f"  signature: {s}")
        lines.append(f"  detail: {json.dumps(v.get('detail'), ensure_ascii=False, default=str)[:600]}")

    wall = time.time() - t0
    cov = {
        "evaluations": agg["evaluations"],
        "distinct_nontrivial": agg["distinct_nontrivial"],
        "rule": getattr(mod, "RULE", ""),
        "samples": agg["samples"][:12],
        "exhaustive": bool(agg["exhaustive"]),
        "distinct_outcomes": agg["distinct_outcomes"],
        "shards": len(shards),
        "bounds": getattr(mod, "bounds", lambda t: {})(tier),
        "caps_hit": agg["caps_hit"],
        "trusted_base": getattr(mod, "TRUSTED", []),
        "repo_head": head,
        "repo_diff_sha": diffhash,
        "repo_dirty": dirty,
        "violation_signatures": sorted(by_sig),
        "known_findings_observed": sorted(s for s in by_sig if s in known),
        "sub_counts": agg["counters"],
    }
    if getattr(mod, "LEVEL", "exploration") == "model_checking":
        cov["states"] = max(1, agg["states"])
        cov["transitions"] = max(1, agg["transitions"])
        cov["traces_validated_against_impl"] = agg["traces"]
    ev = {
        "property_id": prop,
        "tier": tier,
        "seed": seed,
        "level": getattr(mod, "LEVEL", "exploration"),
        "coverage": cov,
        "assumptions": getattr(mod, "ASSUMPTIONS", []),
        "wall_s": round(wall, 2),
        "violations": len(new_sigs),
    }
    # VERIF_EVIDENCE_DIR: used by tools/seeded.py so that runs against deliberately broken scratch copies do not
    # overwrite the evidence of the real tree
    evdir = os.environ.get("VERIF_EVIDENCE_DIR") or os.path.join(VERIF, "evidence")
    os.makedirs(evdir, exist_ok=True)
    json.dump(ev, open(os.path.join(evdir, f"{prop}.json"), "w"), indent=1, ensure_ascii=False, default=str)

    print(
        f"[{prop}] tier={tier} seed={seed} evaluations={agg['evaluations']} distinct_nontrivial={agg['distinct_nontrivial']} "
        f"states={agg['states']} transitions={agg['transitions']} outcomes={agg['distinct_outcomes']} "
        f"exhaustive={agg['exhaustive']} wall={wall:.1f}s"
    )
    for k, v in sorted(agg["counters"].items()):
        print(f"   {k}: {v}")
    nviol = 0
    for ln in lines:
        if ln.startswith("VIOLATION"):
            nviol += 1
        if nviol > 25 and not ln.startswith("KNOWN-FINDING"):
            continue
        print(ln)
    if nviol > 25:
        print(f"... {nviol - 25} further VIOLATION classes not printed (all replays are under {rdir})")
    if agg["errors"]:
        for e in agg["errors"][:5]:
            print("HARNESS-ERROR shard failed:", e[:2000])
        return 2
    if harness_errors:
        for v, got in harness_errors[:5]:
            print("HARNESS-ERROR candidate did not reproduce in a fresh process:", v["sig"], json.dumps(v["case"], default=str)[:300])
        if not new_sigs:
            return 2
        # confirmed violations exist as well: they decide the verdict; the unconfirmed candidates are only listed
    if agg["evaluations"] == 0:
        print("HARNESS-ERROR nothing was explored")
        return 2
    return 1 if new_sigs else 0


def do_replay(mod, prop, path):
    data = json.load(open(path))
    case = data.get("case", data)
    if isinstance(case, dict) and case.get("_history_dependent"):
        ok = workers.confirm_in_shard(mod.__name__, case["shard"], case["signature"])
        got = [{"sig": case["signature"] + "/only-after-earlier-cases-in-the-same-process", "detail": "reproduced by re-running the shard " + json.dumps(case["shard"])[:200]}] if ok else []
    else:
        got = mod.replay(case)
    known, _ = load_known(prop)
    if not got:
        print(f"[{prop}] replay {path}: property holds on this case")
        return 0
    rc = 0
    for g in got:
        print(f"[{prop}] replay {path}: {g['sig']}")
        print("   detail:", json.dumps(g.get("detail"), ensure_ascii=False, default=str)[:2000])
        if g["sig"] in known:
            print(f"KNOWN-FINDING: property={prop} {g['sig']}")
        else:
            print(f"VIOLATION property={prop} replay={path}")
            rc = 1
    return rc


if __name__ == "__main__":
    sys.exit(main())
