"""Reference CEA-608 encoder helpers and pop-on decoder (no pycaption import).

Encoding follows ANSI/CTA-608-E: 7-bit codes + odd parity in bit 7; control codes on data channel 1.
The decoder models what the C05 property observes: the non-displayed / displayed memories as 15 x 32 grids
of (char, italic) cells, the cursor, the control-pair doubling rule, PAC / tab-offset addressing, basic,
special and extended characters, backspace, mid-row codes and End-Of-Caption.
"""

# ---- encoding -------------------------------------------------------------------------------------

def parity(b):
    b &= 0x7F
    return b | (0x80 if bin(b).count("1") % 2 == 0 else 0)


def word(b1, b2):
    return f"{parity(b1):02x}{parity(b2):02x}"


# row -> (first byte, second-byte base)
_PAC_ROW = {
    1: (0x11, 0x40), 2: (0x11, 0x60), 3: (0x12, 0x40), 4: (0x12, 0x60), 5: (0x15, 0x40), 6: (0x15, 0x60),
    7: (0x16, 0x40), 8: (0x16, 0x60), 9: (0x17, 0x40), 10: (0x17, 0x60), 11: (0x10, 0x40), 12: (0x13, 0x40),
    13: (0x13, 0x60), 14: (0x14, 0x40), 15: (0x14, 0x60),
}


def pac(row, col=0, italic=False, underline=False):
    """Preamble address code: indent (col multiple of 4, white) or white italics at column 0."""
    b1, base = _PAC_ROW[row]
    if italic:
        assert col == 0
        low = 0x0E
    else:
        assert col % 4 == 0 and 0 <= col <= 28
        low = 0x10 + (col // 4) * 2
    if underline:
        low |= 1
    return word(b1, base + low)


def tab(n):
    assert n in (1, 2, 3)
    return word(0x17, 0x20 + n)


RCL = word(0x14, 0x20)
BS = word(0x14, 0x21)
DER = word(0x14, 0x24)
RU2 = word(0x14, 0x25)
RU3 = word(0x14, 0x26)
RU4 = word(0x14, 0x27)
RDC = word(0x14, 0x29)
EDM = word(0x14, 0x2C)
CR = word(0x14, 0x2D)
ENM = word(0x14, 0x2E)
EOC = word(0x14, 0x2F)
MR_PLAIN = word(0x11, 0x20)  # mid-row: white, not italic
MR_ITALIC = word(0x11, 0x2E)  # mid-row: italics

# basic character set: ASCII except these code points
_BASIC_EXC = {0x2A: "á", 0x5C: "é", 0x5E: "í", 0x5F: "ó", 0x60: "ú", 0x7B: "ç", 0x7C: "÷", 0x7D: "Ñ", 0x7E: "ñ", 0x7F: "█"}
BASIC = {}
for _c in range(0x20, 0x80):
    BASIC[_c] = _BASIC_EXC.get(_c, chr(_c))
BASIC_CODE = {v: k for k, v in BASIC.items()}

SPECIAL = {  # 0x11 0x30..0x3f
    0x30: "®", 0x31: "°", 0x32: "½", 0x33: "¿", 0x34: "™", 0x35: "¢", 0x36: "£", 0x37: "♪",
    0x38: "à", 0x39: " ", 0x3A: "è", 0x3B: "â", 0x3C: "ê", 0x3D: "î", 0x3E: "ô", 0x3F: "û",
}
# extended western european sets: 0x12 0x20..0x3f (Spanish / misc / French), 0x13 0x20..0x3f (Portuguese / German / Danish)
EXT_12 = {
    0x20: "Á", 0x21: "É", 0x22: "Ó", 0x23: "Ú", 0x24: "Ü", 0x25: "ü", 0x26: "‘", 0x27: "¡",
    0x28: "*", 0x29: "’", 0x2A: "—", 0x2B: "©", 0x2C: "℠", 0x2D: "•", 0x2E: "“", 0x2F: "”",
    0x30: "À", 0x31: "Â", 0x32: "Ç", 0x33: "È", 0x34: "Ê", 0x35: "Ë", 0x36: "ë", 0x37: "Î",
    0x38: "Ï", 0x39: "ï", 0x3A: "Ô", 0x3B: "Ù", 0x3C: "ù", 0x3D: "Û", 0x3E: "«", 0x3F: "»",
}
EXT_13 = {
    0x20: "Ã", 0x21: "ã", 0x22: "Í", 0x23: "Ì", 0x24: "ì", 0x25: "Ò", 0x26: "ò", 0x27: "Õ",
    0x28: "õ", 0x29: "{", 0x2A: "}", 0x2B: "\\", 0x2C: "^", 0x2D: "_", 0x2E: "¦", 0x2F: "~",
    0x30: "Ä", 0x31: "ä", 0x32: "Ö", 0x33: "ö", 0x34: "ß", 0x35: "¥", 0x36: "¤", 0x37: "|",
    0x38: "Å", 0x39: "å", 0x3A: "Ø", 0x3B: "ø", 0x3C: "┌", 0x3D: "┐", 0x3E: "└", 0x3F: "┘",
}


def chars(a, b=None):
    """one word carrying one or two basic characters"""
    return word(BASIC_CODE[a], BASIC_CODE[b] if b is not None else 0x00)


def special(code):
    return word(0x11, code)


def extended(page, code):
    return word(page, code)


_SPECIAL_CODE = {v: k for k, v in SPECIAL.items() if v != " "}
_EXT_CODE = {}
for _page, _tab in ((0x12, EXT_12), (0x13, EXT_13)):
    for _k, _v in _tab.items():
        _EXT_CODE.setdefault(_v, (_page, _k))


def text_words(s, d=1):
    """displayed string -> list of words. Basic characters travel two per word (padded); a special character is one
    word, an extended character is its basic stand-in followed by one word that replaces it; special / extended words
    are sent d times (d = 2 for streams that double their codes)"""
    import unicodedata

    out = []
    pending = []

    def flush():
        for i in range(0, len(pending), 2):
            out.append(chars(pending[i], pending[i + 1] if i + 1 < len(pending) else None))
        del pending[:]

    for ch in s:
        if ch in BASIC_CODE:
            pending.append(ch)
        elif ch in _SPECIAL_CODE:
            flush()
            out.extend([special(_SPECIAL_CODE[ch])] * d)
        elif ch in _EXT_CODE:
            base = unicodedata.normalize("NFD", ch)[0]
            pending.append(base if base in BASIC_CODE and base != ch else "#")
            flush()
            out.extend([extended(*_EXT_CODE[ch])] * d)
        else:
            raise ValueError(f"not a CEA-608 character: {ch!r}")
    flush()
    return out


# ---- decoding -------------------------------------------------------------------------------------

class Decoder:
    """Pop-on subset of a CEA-608 decoder, channel 1."""

    def __init__(self):
        self.nd = {}  # non-displayed memory: row -> {col: (char, italic)}
        self.disp = {}
        self.row = None
        self.col = 0
        self.italic = False
        self.last_ctrl = None
        self.first_cell = {}  # row -> column of the first cell written on that row (in nd memory)
        self.disp_first = {}
        self.overflow = False
        self.mode = None

    def clone(self):
        import copy

        return copy.deepcopy(self)

    def key(self):
        def mem(m):
            return tuple(sorted((r, tuple(sorted(c.items()))) for r, c in m.items() if c))

        return (mem(self.nd), mem(self.disp), self.row, self.col, self.italic, self.last_ctrl, self.mode)

    # -- helpers
    def _put(self, ch):
        if self.row is None:
            return
        if self.col > 31:
            self.overflow = True
            self.col = 31
        cells = self.nd.setdefault(self.row, {})
        if not cells:
            self.first_cell[self.row] = self.col
        cells[self.col] = (ch, self.italic)
        self.col += 1

    def _backspace(self):
        if self.row is None or self.col == 0:
            return
        self.col -= 1
        cells = self.nd.get(self.row, {})
        cells.pop(self.col, None)

    def feed(self, w):
        b1 = int(w[:2], 16) & 0x7F
        b2 = int(w[2:], 16) & 0x7F
        if 0x10 <= b1 <= 0x1F:
            pair = (b1, b2)
            if self.last_ctrl == pair:
                self.last_ctrl = None  # second copy of a doubled control pair: ignored
                return "dup"
            self.last_ctrl = pair
            return self._control(b1, b2)
        self.last_ctrl = None
        for b in (b1, b2):
            if b >= 0x20:
                self._put(BASIC[b])
        return "chars"

    def _control(self, b1, b2):
        if b1 == 0x14 and 0x20 <= b2 <= 0x2F:
            if b2 == 0x20:
                self.mode = "pop"
            elif b2 == 0x21:
                self._backspace()
            elif b2 == 0x2C:
                self.disp = {}
                self.disp_first = {}
            elif b2 == 0x2E:
                self.nd = {}
                self.first_cell = {}
            elif b2 == 0x2F:
                self.nd, self.disp = self.disp, self.nd
                self.first_cell, self.disp_first = self.disp_first, self.first_cell
                self.mode = "pop"
            elif b2 in (0x25, 0x26, 0x27):
                self.mode = "roll"
            elif b2 == 0x29:
                self.mode = "paint"
            return "misc"
        if b1 == 0x17 and 0x21 <= b2 <= 0x23:
            self.col += b2 - 0x20
            return "tab"
        if b1 == 0x11 and 0x20 <= b2 <= 0x2F:
            # mid-row code: occupies a cell (a space), then sets the attribute
            it = (b2 & 0x0E) == 0x0E
            self.italic_pending = it
            self._put(" ")
            self.italic = it
            return "midrow"
        if b1 == 0x11 and 0x30 <= b2 <= 0x3F:
            self._put(SPECIAL[b2])
            return "special"
        if b1 in (0x12, 0x13) and 0x20 <= b2 <= 0x3F:
            self._backspace()
            self._put((EXT_12 if b1 == 0x12 else EXT_13)[b2])
            return "extended"
        if b2 >= 0x40:
            # PAC
            for row, (rb1, base) in _PAC_ROW.items():
                if rb1 == b1 and (b2 & 0x60) == base:
                    self.row = row
                    low = b2 & 0x1F
                    if low >= 0x10:
                        self.col = ((low - 0x10) >> 1) * 4
                        self.italic = False
                    else:
                        self.col = 0
                        self.italic = (low >> 1) == 7
                    return "pac"
        return "other"

    # -- observation
    def screen_captions(self):
        """The displayed memory as the C05 observable: maximal runs of consecutive non-empty rows -> one
        caption each: dict(row, col, lines=[[(char, italic)]])"""
        rows = sorted(r for r, c in self.disp.items() if c)
        caps = []
        for r in rows:
            cells = self.disp[r]
            lo, hi = min(cells), max(cells)
            line = [cells.get(c, (" ", False)) for c in range(lo, hi + 1)]
            if caps and caps[-1]["last_row"] == r - 1:
                caps[-1]["lines"].append(line)
                caps[-1]["last_row"] = r
            else:
                caps.append({"row": r, "col": self.disp_first.get(r, lo), "lines": [line], "last_row": r})
        return caps


def visible(line):
    """[(char, italic)] -> (text with whitespace runs collapsed and trimmed, flags of the non-space chars)"""
    txt = " ".join("".join(c for c, _ in line).split())
    flags = [it for c, it in line if not c.isspace()]
    return txt, flags
