"""Independent, conformant-style parsers of the five output formats (no pycaption import).
Each returns a list of cues: dict(start=<int, format units>, end=..., lines=[str], raw=...) and raises
ParseError when the document violates the format's block structure."""
import html
import re
from html.parser import HTMLParser


class ParseError(Exception):
    pass


def norm_line(s):
    """the equivalence of C03/C04: trim, collapse whitespace runs (NBSP is whitespace for this purpose)"""
    return " ".join(s.replace("\u00a0", " ").split())


# ---- SRT ----------------------------------------------------------------------------------------
SRT_TIMING = re.compile(r"^(\d{2,}):(\d{2}):(\d{2}),(\d{3}) --> (\d{2,}):(\d{2}):(\d{2}),(\d{3})$")


def parse_srt(doc):
    """Block grammar: blocks are separated by blank lines (a line that is empty or only whitespace);
    block = index line, timing line, one or more text lines."""
    lines = doc.split("\n")
    blocks, cur = [], []
    for ln in lines:
        ln = ln.rstrip("\r")
        if ln.strip() == "":
            if cur:
                blocks.append(cur)
                cur = []
        else:
            cur.append(ln)
    if cur:
        blocks.append(cur)
    cues = []
    for b in blocks:
        if len(b) < 2 or not re.match(r"^\d+$", b[0]):
            raise ParseError(f"srt: block does not start with an index line: {b[:3]!r}")
        m = SRT_TIMING.match(b[1])
        if not m:
            raise ParseError(f"srt: bad timing line {b[1]!r}")
        g = [int(x) for x in m.groups()]
        if g[1] > 59 or g[2] > 59 or g[5] > 59 or g[6] > 59:
            raise ParseError(f"srt: field out of range {b[1]!r}")
        start = ((g[0] * 60 + g[1]) * 60 + g[2]) * 1000 + g[3]
        end = ((g[4] * 60 + g[5]) * 60 + g[6]) * 1000 + g[7]
        if len(b) < 3:
            raise ParseError(f"srt: cue without text {b!r}")
        cues.append({"index": int(b[0]), "start": start, "end": end, "lines": b[2:], "raw": b[1]})
    for i, c in enumerate(cues, 1):
        if c["index"] != i:
            raise ParseError(f"srt: index {c['index']} at position {i}")
    return cues


# ---- WebVTT -----------------------------------------------------------------------------------------
VTT_TS = r"(?:(\d{2,}):)?(\d{2}):(\d{2})\.(\d{3})"
VTT_TIMING = re.compile(r"^" + VTT_TS + r"[ \t]+-->[ \t]+" + VTT_TS + r"(?:[ \t]+(.*))?$")
VTT_ENT = {"amp": "&", "lt": "<", "gt": ">", "nbsp": "\u00a0", "lrm": "\u200e", "rlm": "\u200f"}


def vtt_cue_text(payload_line):
    """WebVTT cue text tokenizer for one line: returns (text, tags) - text after dropping tags and decoding
    the character references."""
    out, tags = [], []
    i, n = 0, len(payload_line)
    while i < n:
        ch = payload_line[i]
        if ch == "<":
            j = payload_line.find(">", i)
            if j < 0:
                tags.append(payload_line[i + 1 :])
                break
            tags.append(payload_line[i + 1 : j])
            i = j + 1
        elif ch == "&":
            m = re.match(r"&(#[0-9]+|#[xX][0-9a-fA-F]+|[A-Za-z0-9]+);", payload_line[i:])
            if m:
                name = m.group(1)
                if name in VTT_ENT:
                    out.append(VTT_ENT[name])
                else:
                    out.append(html.unescape(m.group(0)))
                i += len(m.group(0))
            else:
                out.append("&")
                i += 1
        else:
            out.append(ch)
            i += 1
    return "".join(out), tags


def parse_vtt(doc):
    lines = [l.rstrip("\r") for l in doc.split("\n")]
    if not lines or not re.match(r"^WEBVTT([ \t].*)?$", lines[0]):
        raise ParseError("vtt: missing WEBVTT signature")
    if len(lines) > 1 and lines[1] != "":
        # header block may continue until a blank line; pycaption writes none
        raise ParseError("vtt: header not followed by a blank line")
    blocks, cur = [], []
    for ln in lines[1:]:
        if ln == "":
            if cur:
                blocks.append(cur)
                cur = []
        elif "-->" in ln and (len(cur) >= 2 or (len(cur) == 1 and "-->" in cur[0])):
            # WebVTT "collect a block": an arrow on the third or a later line (or on the line after a timing
            # line) ends the current block; the line is re-processed as the start of a new block
            blocks.append(cur)
            cur = [ln]
        else:
            cur.append(ln)
    if cur:
        blocks.append(cur)
    cues = []
    for b in blocks:
        k = 0
        if "-->" not in b[0]:
            if b[0].startswith("NOTE") or b[0].startswith("STYLE") or b[0].startswith("REGION"):
                if any("-->" in x for x in b):
                    raise ParseError(f"vtt: arrow inside a comment block {b!r}")
                continue
            k = 1
            if len(b) < 2 or "-->" not in b[1]:
                raise ParseError(f"vtt: block without timing line {b[:3]!r}")
        m = VTT_TIMING.match(b[k])
        if not m:
            raise ParseError(f"vtt: bad timing line {b[k]!r}")
        g = m.groups()
        def ms(h, mi, s, f):
            if int(mi) > 59 or int(s) > 59:
                raise ParseError(f"vtt: field out of range {b[k]!r}")
            return ((int(h or 0) * 60 + int(mi)) * 60 + int(s)) * 1000 + int(f)
        start, end = ms(*g[0:4]), ms(*g[4:8])
        payload = b[k + 1 :]
        for p in payload:
            if "-->" in p:
                raise ParseError(f"vtt: '-->' inside cue payload {p!r}")
        if not payload:
            raise ParseError(f"vtt: cue without payload {b!r}")
        texts, tags = [], []
        for p in payload:
            t, tg = vtt_cue_text(p)
            texts.append(t)
            tags.append(tg)
        cues.append({"start": start, "end": end, "settings": g[8] or "", "lines": texts, "raw_lines": payload, "tags": tags, "raw": b[k]})
    return cues


# ---- MicroDVD ---------------------------------------------------------------------------------------
def parse_microdvd(doc):
    cues = []
    for ln in doc.split("\n"):
        ln = ln.rstrip("\r")
        if ln == "":
            continue
        m = re.match(r"^\{(\d+)\}\{(\d+)\}(.*)$", ln)
        if not m:
            raise ParseError(f"microdvd: line does not match {{n}}{{n}}text: {ln!r}")
        cues.append({"start": int(m.group(1)), "end": int(m.group(2)), "lines": m.group(3).split("|"), "raw": ln})
    return cues


# ---- TTML / DFXP ----------------------------------------------------------------------------------------
TTML_NS = "http://www.w3.org/ns/ttml"
TTS_NS = "http://www.w3.org/ns/ttml#styling"
XML_NS = "http://www.w3.org/XML/1998/namespace"
TTML_CLOCK = re.compile(r"^(\d{2,}):(\d{2}):(\d{2})\.(\d{3})$")


def parse_ttml(doc):
    """Strict XML 1.0 well-formedness parse: expat via xml.etree.ElementTree is the authority (it does not apply
    the separate xml:id NCName constraint); lxml (no recovery) is run as a cross-check and a disagreement is
    recorded in LXML_DISAGREEMENTS, not reported as a violation.
    Returns dict(root=element, divs=[dict(lang, ps=[cue])])."""
    import xml.etree.ElementTree as ET

    try:
        root = ET.fromstring(doc.encode("utf-8"))
    except ET.ParseError as e:
        raise ParseError(f"ttml: not well-formed: {e}")
    try:
        from lxml import etree

        etree.fromstring(doc.encode("utf-8"), etree.XMLParser(recover=False, resolve_entities=False, no_network=True))
    except Exception as e:  # noqa
        LXML_DISAGREEMENTS.append(str(e)[:120])
    if root.tag != f"{{{TTML_NS}}}tt":
        raise ParseError(f"ttml: root is {root.tag}")
    divs = []
    for div in root.iter(f"{{{TTML_NS}}}div"):
        ps = []
        for p_el in div.iter(f"{{{TTML_NS}}}p"):
            ps.append(ttml_p(p_el))
        divs.append({"lang": div.get(f"{{{XML_NS}}}lang"), "ps": ps, "el": div})
    return {"root": root, "divs": divs}


LXML_DISAGREEMENTS = []


def ttml_time(s):
    m = TTML_CLOCK.match(s or "")
    if not m:
        raise ParseError(f"ttml: time expression {s!r} is not hh:mm:ss.mmm")
    h, mi, se, f = (int(x) for x in m.groups())
    if mi > 59 or se > 59:
        raise ParseError(f"ttml: field out of range {s!r}")
    return ((h * 60 + mi) * 60 + se) * 1000 + f


def ttml_p(p_el):
    """lines of a <p>: text split at <br/>, spans recursed; per-character style flags collected"""
    lines = [[]]  # list of list of (char, flags)

    def walk(el, flags):
        if el.text:
            for ch in el.text:
                lines[-1].append((ch, flags))
        for ch_el in el:
            tag = ch_el.tag if isinstance(ch_el.tag, str) else ""
            if tag == f"{{{TTML_NS}}}br":
                lines.append([])
            elif tag == f"{{{TTML_NS}}}span":
                f2 = dict(flags)
                if ch_el.get(f"{{{TTS_NS}}}fontStyle") == "italic":
                    f2["italics"] = True
                if ch_el.get(f"{{{TTS_NS}}}fontWeight") == "bold":
                    f2["bold"] = True
                if "underline" in (ch_el.get(f"{{{TTS_NS}}}textDecoration") or "").split():
                    f2["underline"] = True
                if ch_el.get("region"):
                    f2["region"] = ch_el.get("region")
                if ch_el.get("style"):
                    f2["style"] = ch_el.get("style")
                walk(ch_el, f2)
            elif tag:
                walk(ch_el, flags)
            if ch_el.tail:
                for c in ch_el.tail:
                    lines[-1].append((c, flags))

    walk(p_el, {})
    text_lines = ["".join(c for c, _ in ln) for ln in lines]
    return {
        "start": ttml_time(p_el.get("begin")) if p_el.get("begin") is not None else None,
        "end": ttml_time(p_el.get("end")) if p_el.get("end") is not None else None,
        "raw": (p_el.get("begin"), p_el.get("end")),
        "lines": text_lines,
        "chars": lines,
        "el": p_el,
    }


# ---- SAMI -------------------------------------------------------------------------------------------------
class _Sami(HTMLParser):
    def __init__(self):
        super().__init__(convert_charrefs=True)
        self.syncs = []  # [{"start_raw": str, "ps": [{"class":..., "lines": [...], "chars": [...]}]}]
        self.in_body = False
        self.cur_p = None
        self.stack = []
        self.style_text = []
        self.in_style = False
        self.errors = []

    def _flags(self):
        f = {}
        for tag, attrs in self.stack:
            if tag == "i":
                f["italics"] = True
            elif tag == "b":
                f["bold"] = True
            elif tag == "u":
                f["underline"] = True
            elif tag == "span":
                st = (attrs.get("style") or "").replace(" ", "").lower()
                for decl in st.split(";"):
                    if decl == "font-style:italic":
                        f["italics"] = True
                    elif decl == "font-weight:bold":
                        f["bold"] = True
                    elif decl == "text-decoration:underline":
                        f["underline"] = True
                if attrs.get("class"):
                    f["class"] = attrs.get("class")
        return f

    def handle_starttag(self, tag, attrs):
        a = dict(attrs)
        if tag == "style":
            self.in_style = True
        elif tag == "body":
            self.in_body = True
        elif tag == "sync":
            self.cur_p = None
            self.syncs.append({"start_raw": a.get("start"), "ps": []})
        elif tag == "p":
            if not self.syncs:
                self.errors.append("p outside sync")
                return
            self.cur_p = {"class": a.get("class"), "lang": a.get("lang"), "lines": [[]], "attrs": a}
            self.syncs[-1]["ps"].append(self.cur_p)
            self.stack = []
        elif tag == "br":
            if self.cur_p is not None:
                self.cur_p["lines"].append([])
        elif self.cur_p is not None:
            self.stack.append((tag, a))

    def handle_startendtag(self, tag, attrs):
        if tag == "br":
            if self.cur_p is not None:
                self.cur_p["lines"].append([])
        else:
            self.handle_starttag(tag, attrs)
            self.handle_endtag(tag)

    def handle_endtag(self, tag):
        if tag == "style":
            self.in_style = False
        elif tag == "p":
            if self.stack:
                self.errors.append(f"unclosed {[t for t, _ in self.stack]} at </p>")
            self.cur_p = None
            self.stack = []
        elif tag == "sync":
            self.cur_p = None
        elif self.cur_p is not None and tag not in ("br",):
            if self.stack and self.stack[-1][0] == tag:
                self.stack.pop()
            else:
                self.errors.append(f"stray or misnested </{tag}> (open: {[t for t, _ in self.stack]})")
                # recover like a browser: pop up to the matching tag if present
                names = [t for t, _ in self.stack]
                if tag in names:
                    while self.stack and self.stack[-1][0] != tag:
                        self.stack.pop()
                    self.stack.pop()

    def handle_data(self, data):
        if self.in_style:
            self.style_text.append(data)
        elif self.cur_p is not None:
            fl = self._flags()
            for ch in data:
                self.cur_p["lines"][-1].append((ch, fl))

    def handle_comment(self, data):
        if self.in_style:
            self.style_text.append(data)


def parse_sami(doc):
    p = _Sami()
    p.feed(doc)
    p.close()
    out = []
    for s in p.syncs:
        ps = []
        for para in s["ps"]:
            ps.append(
                {
                    "class": para["class"],
                    "lang": para["lang"],
                    "lines": ["".join(c for c, _ in ln) for ln in para["lines"]],
                    "chars": para["lines"],
                }
            )
        out.append({"start_raw": s["start_raw"], "ps": ps})
    return {"syncs": out, "style": "".join(p.style_text), "markup_errors": p.errors}


def sami_is_blank(para):
    return all(norm_line(l) == "" for l in para["lines"])
