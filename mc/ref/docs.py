"""Independent serialisers: abstract cues -> document text for the five text formats.
No pycaption import. Text lines arrive already encoded for the target format (see mc.ref.text)."""
from fractions import Fraction


# ---- timestamp spellings ------------------------------------------------------------------------
def split_hms(us):
    """us: int microseconds -> (h, m, s, micro)"""
    us = int(us)
    s, micro = divmod(us, 1000000)
    m, s = divmod(s, 60)
    h, m = divmod(m, 60)
    return h, m, s, micro


def clock(us, hpad=2, frac_sep=".", frac_digits=3, with_hours=True):
    """HH:MM:SS<sep>fff ; frac_digits=0 -> no fraction (caller guarantees the fraction is zero);
    frac_digits>6 pads with zeros. us must be representable with the requested digits."""
    h, m, s, micro = split_hms(us)
    out = f"{m:02d}:{s:02d}"
    if with_hours:
        out = f"{h:0{hpad}d}:" + out
    else:
        assert h == 0
    if frac_digits:
        six = f"{micro:06d}"
        if frac_digits <= 6:
            assert six[frac_digits:].strip("0") == "", (us, frac_digits)
            out += frac_sep + six[:frac_digits]
        else:
            out += frac_sep + six + "0" * (frac_digits - 6)
    else:
        assert micro == 0
    return out


# ---- documents ---------------------------------------------------------------------------------
def srt_doc(cues, nl="\n", arrow=" --> ", trailing_blank=True):
    """cues: [(start_str, end_str, [lines])]"""
    out = []
    for i, (s, e, lines) in enumerate(cues, 1):
        out.append(f"{i}{nl}{s}{arrow}{e}{nl}" + nl.join(lines) + nl)
    doc = nl.join(out)
    return doc if trailing_blank else doc.rstrip("\r\n")


def vtt_doc(cues, nl="\n", ids=False, header="WEBVTT", arrow=" --> "):
    """cues: [(start_str, end_str, settings_str, [lines])]"""
    out = [header + nl]
    for i, (s, e, settings, lines) in enumerate(cues, 1):
        blk = ""
        if ids:
            blk += f"cue-{i}{nl}"
        blk += f"{s}{arrow}{e}" + (f" {settings}" if settings else "") + nl
        blk += nl.join(lines) + nl
        out.append(blk)
    return nl.join(out)


def microdvd_doc(cues, fps=None, nl="\n"):
    """cues: [(start_frame, end_frame, text_with_pipes)]"""
    out = []
    if fps is not None:
        out.append("{0}{0}" + str(fps))
    for s, e, t in cues:
        out.append(f"{{{s}}}{{{e}}}{t}")
    return nl.join(out) + nl


def dfxp_doc(divs, tt_lang="en", head="", tt_attrs="", body_attrs=""):
    """divs: [(lang or None, [(attr_string, inner_xml)], div_attr_string)]"""
    out = ['<?xml version="1.0" encoding="utf-8"?>']
    lang_attr = f' xml:lang="{tt_lang}"' if tt_lang is not None else ""
    out.append(
        f'<tt{lang_attr} xmlns="http://www.w3.org/ns/ttml" xmlns:tts="http://www.w3.org/ns/ttml#styling"{tt_attrs}>'
    )
    out.append(f"<head>{head}</head>")
    out.append(f"<body{body_attrs}>")
    for item in divs:
        lang, ps = item[0], item[1]
        dattr = item[2] if len(item) > 2 else ""
        la = f' xml:lang="{lang}"' if lang is not None else ""
        out.append(f"<div{la}{dattr}>")
        for attrs, inner in ps:
            out.append(f"<p {attrs}>{inner}</p>")
        out.append("</div>")
    out.append("</body>")
    out.append("</tt>")
    return "\n".join(out) + "\n"


SAMI_CLASSES = {"en-US": "ENCC", "fr-FR": "FRCC", "de-DE": "DECC", "es-ES": "ESCC"}


def sami_doc(syncs, langs, use_lang_attr=False, extra_css="", quote='"', class_css=None):
    """syncs: [(ms, [(lang, inner_html)])] in document order; langs: list of language codes.
    Languages are declared as classes in the style sheet (lang: xx-YY) unless use_lang_attr."""
    css = ["P { font-family: Arial; }"]
    for l in langs:
        css.append(f".{SAMI_CLASSES[l]} {{ Name: {l}; lang: {l}; SAMI_Type: CC; {(class_css or {}).get(l, '')}}}")
    out = ["<SAMI>", "<HEAD>", "<TITLE>t</TITLE>", '<STYLE TYPE="text/css">', "<!--"] + css + [extra_css, "-->", "</STYLE>", "</HEAD>", "<BODY>"]
    for ms, ps in syncs:
        out.append(f"<SYNC start={quote}{ms}{quote}>")
        for lang, inner in ps:
            if use_lang_attr:
                out.append(f"<P lang={quote}{lang}{quote}>{inner}</P>")
            else:
                out.append(f"<P class={quote}{SAMI_CLASSES[lang]}{quote}>{inner}</P>")
        out.append("</SYNC>")
    out += ["</BODY>", "</SAMI>"]
    return "\n".join(out) + "\n"


def frac_us(x):
    return Fraction(x)


# documents every reader refuses half-way (a valid first cue, then a malformed one): earlier reads of a reused reader object
REJECTED = {
    "dfxp": '<?xml version="1.0" encoding="utf-8"?><tt xml:lang="en" xmlns="http://www.w3.org/ns/ttml"><body><div><p begin="00:00:01.000" end="00:00:02.000">left over</p><p begin="nonsense" end="00:00:03.000">bad</p></div></body></tt>',
    "sami": "<SAMI><BODY><SYNC start=1000><P class=ENCC>left over</P></SYNC><SYNC><P class=ENCC>no start</P></SYNC></BODY></SAMI>",
    "webvtt": "WEBVTT\n\n00:01.000 --> 00:02.000\nleft over\n\n00:05.000 --> bad\nmalformed timing\n",
    "srt": "1\n00:00:01,000 --> 00:00:02,000\nleft over\n\n2\n00:00:0x,000 --> 00:00:04,000\nbad\n",
    "microdvd": "{25}{50}left over\n{x}{60}bad\n",
}
