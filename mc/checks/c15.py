"""C15  SCC lines longer than 32 characters are never returned silently.

Exhaustive exploration of streams in the three caption modes built from rows of length L in {0,1,31,32,33,40}:
pop-on groups of 1..3 rows (non-adjacent rows -> several captions sharing one start time; adjacent rows -> lines of
one caption) in every transmission order, followed by 0..2 further groups (same or later start second); roll-up and
paint-on rows likewise. Oracle: CaptionLineLengthError naming every offending line iff some row has more than 32
characters, otherwise every returned line has at most 32; the verdict is invariant under row order.
"""
import itertools

from mc import shared
from mc.acc import Acc, h8
from mc.ref import cea608 as C

ID = "C15"
LEVEL = "model_checking"
RULE = (
    "pop-on: row-set x all length assignments over LENGTHS x all transmission orders x follow-up groups; roll-up (2/3/4) and "
    "paint-on: all length assignments for 1..4 rows. model = list of transmitted row texts; states = distinct (mode, multiset of "
    "row lengths, order) abstractions, transitions = rows transmitted, traces = programs run on the real reader. "
    "non-trivial = at least one row carries text"
)
ASSUMPTIONS = ["rows consist of letters, every second row with one or two leading blanks (blanks occupy columns; no trailing blanks, which a decoder would not show)", "row lengths are drawn from {0,1,31,32,33,40} (more in the thorough tier)"]
TRUSTED = ["mc.ref.cea608 encoder"]
MANIFEST = {
    "technique": "exhaustive enumeration of row-length assignments x transmission orders x caption modes; oracle = row lengths of the transmitted program (reference list model)",
    "text": "Every stream of the bounded family is read by the real SCCReader; either the line-length error names all rows longer than 32 or all returned lines are at most 32 characters, independently of row order and of shared start times.",
    "note": "Bounded to 3 rows per pop-on group, 3 groups, 4 roll-up/paint-on rows, six lengths.",
}
LENGTHS = [1, 31, 32, 33, 40]
LETTERS = "ABCDEFGHIJKL"
TWO_ITALIC_WORDS = "E"  # rows of the letter E (used by the family "two-italic-words" only)
ROWSETS = [[1, 5, 10], [13, 14, 15], [2, 3, 9]]


LENGTHS_T = [1, 2, 30, 31, 32, 33, 34, 40, 64]
ROWSETS_T = ROWSETS + [[1, 3, 5, 7], [12, 13, 14, 15], [1, 2, 14, 15]]


def bounds(tier):
    return {"lengths": [0] + (LENGTHS if tier == "quick" else LENGTHS_T), "popon_rows_per_group": 3 if tier == "quick" else 4, "groups": 3, "rollup_rows": 4}


# how the preamble address codes are spelled: per row parity (even row, odd row), each "plain" | "italic" | "underlined" |
# "italic-underlined" - the codes differ, the addressed row and the columns do not
PAC_STYLES = ["plain", "italic", "underlined", "italic-underlined"]
PAC_STYLE = ("plain", "plain")


def _pac(row):
    st = PAC_STYLE[row % 2]
    return C.pac(row, 0, "italic" in st, "underlined" in st)


def row_words(row, text, d):
    """rows of the letters C, F, I, L carry a mid-row style code (italics on) in the middle of the row: on a decoder it
    occupies one cell; the row's columns are those of the returned line (text run, code, text run)"""
    if len(text) >= 4 and text.strip()[:1] in "CFIL":
        half = (len(text) // 2) & ~1
        return [_pac(row)] * d + C.text_words(text[:half]) + [C.MR_ITALIC] * d + C.text_words(text[half:])
    if len(text) >= 4 and text.strip()[:1] in TWO_ITALIC_WORDS:
        # two italic words: italics on, first half, plain, italics on again, second half (the reader returns the pair of
        # codes between the halves as one blank)
        half = (len(text) // 2) & ~1
        return [_pac(row)] * d + [C.MR_ITALIC] * d + C.text_words(text[:half]) + [C.MR_PLAIN] * d + [C.MR_ITALIC] * d + C.text_words(text[half:])
    return [_pac(row)] * d + C.text_words(text)


def popon_doc(groups, d, same_second):
    """groups: list of list of (row, text); one group = one caption load + EOC"""
    lines = ["Scenarist_SCC V1.0", ""]
    t = 30
    for gi, grp in enumerate(groups):
        w = [C.ENM] * d + [C.RCL] * d
        for row, text in grp:
            if text:
                w += row_words(row, text, d)
            else:
                w += [C.pac(row, 0)] * d
        w += [C.EDM] * d + [C.EOC] * d
        lines.append(tc(t) + "\t" + " ".join(w))
        lines.append("")
        t += len(w) + (8 if same_second else 200)
    lines.append(tc(t + 60) + "\t" + " ".join([C.EDM] * d))
    lines.append("")
    return "\n".join(lines)


def flash_doc(texts, d, flash_first):
    """a pop-on stream with one ordinary caption (rows 14 / 15 = texts) and one caption that is erased one frame after it
    appears (displayed for less than 0.05 s: the reader refuses such a stream, C06) - before or after the ordinary one"""
    lines = ["Scenarist_SCC V1.0", ""]
    t = 30
    main = [C.ENM] * d + [C.RCL] * d
    for row, text in zip((14, 15), texts):
        main += row_words(row, text, d)
    main += [C.EOC] * d
    flash = [C.ENM] * d + [C.RCL] * d + row_words(8, "Zz", d) + [C.EOC] * d + [C.EDM] * d
    for w in ([flash, main] if flash_first else [main, flash]):
        lines += [tc(t) + "\t" + " ".join(w), ""]
        t += len(w) + 90
    lines += [tc(t + 60) + "\t" + " ".join([C.EDM] * d), ""]
    return "\n".join(lines)


def tc(fr):
    s = fr // 30
    return f"{s // 3600:02d}:{(s // 60) % 60:02d}:{s % 60:02d}:{fr % 30:02d}"


def rollup_doc(depth, texts, d):
    cmd = {2: C.RU2, 3: C.RU3, 4: C.RU4}[depth]
    lines = ["Scenarist_SCC V1.0", ""]
    t = 30
    for text in texts:
        w = [cmd] * d + [C.CR] * d + row_words(15, text, d)
        lines.append(tc(t) + "\t" + " ".join(w))
        lines.append("")
        t += len(w) + 60
    lines.append(tc(t + 30) + "\t" + " ".join([C.CR] * d))
    lines.append("")
    return "\n".join(lines)


def painton_doc(rows, texts, d):
    lines = ["Scenarist_SCC V1.0", ""]
    t = 30
    w = [C.RDC] * d
    for row, text in zip(rows, texts):
        w += row_words(row, text, d) if text else [C.pac(row, 0)] * d
    lines.append(tc(t) + "\t" + " ".join(w))
    lines.append("")
    lines.append(tc(t + len(w) + 90) + "\t" + " ".join([C.EDM] * d))
    lines.append("")
    return "\n".join(lines)


def judge(doc, row_texts, klass):
    """row_texts: all transmitted row texts (non-empty)"""
    from pycaption import SCCReader
    from pycaption.exceptions import CaptionLineLengthError

    # a row with a mid-row code is returned as its two runs joined by the code's cell (a blank)
    def shown(t):
        if len(t) >= 4 and t.strip()[:1] in "CFIL" + TWO_ITALIC_WORDS:
            half = (len(t) // 2) & ~1
            return t[:half] + " " + t[half:]
        return t

    row_texts = [shown(t) for t in row_texts]
    long_rows = [t for t in row_texts if len(t) > 32]
    v = []
    try:
        cs = shared.obj(SCCReader).read(doc)
        lines = []
        for c in cs.get_captions("en-US"):
            cur = ""
            for n in c.nodes:
                if n.type_ == 1:
                    cur += n.content
                elif n.type_ == 3:
                    lines.append(cur)
                    cur = ""
            lines.append(cur)
        res = ("ok", max([len(l) for l in lines] or [0]))
        if long_rows or any(len(l) > 32 for l in lines):
            v.append((f"C15/{klass}/long-line-returned-silently", {"returned_line_lengths": sorted(len(l) for l in lines), "rows": [len(t) for t in row_texts], "doc": doc}))
    except CaptionLineLengthError as e:
        msg = str(e.args[0]) if e.args else str(e)
        res = ("line-length-error",)
        if not long_rows:
            v.append((f"C15/{klass}/error-without-long-line", {"msg": msg[:300], "doc": doc}))
        else:
            missing = [t for t in long_rows if t not in msg]
            if missing:
                v.append((f"C15/{klass}/offending-line-not-named", {"missing": [len(t) for t in missing], "msg": msg[:400], "doc": doc}))
    except Exception as e:  # noqa
        if not row_texts and type(e).__name__ == "CaptionReadNoCaptions":
            return [], ("empty",)
        res = ("raises", type(e).__name__)
        v.append((f"C15/{klass}/raises:{type(e).__name__}", {"err": str(e)[:200], "doc": doc}))
    return v, res


def mk(letter, n):
    """row text of n characters; rows of the second letter family start with blanks (which count as columns)"""
    if n >= 3 and letter in "BDFHJL":
        return "  " + letter * (n - 2) if letter in "DHL" else " " + letter * (n - 1)
    return letter * n


def reuse_items():
    items = []
    i = 0
    for lens in itertools.product([1, 32, 33], repeat=2):
        for mode in ("pop", "roll", "paint"):
            texts = [mk(LETTERS[k], L) for k, L in enumerate(lens)]
            if mode == "pop":
                doc = popon_doc([[(1, texts[0]), (9, texts[1])]], 1 + i % 2, False)
            elif mode == "roll":
                doc = rollup_doc(2 + i % 3, texts, 1 + i % 2)
            else:
                doc = painton_doc([14, 15], texts, 1 + i % 2)
            items.append((doc, texts, mode + "-reuse-run"))
            i += 1
    return items


def reuse_eval(item):
    return judge(*item)


def shards(tier, seed):
    sh = [{"k": "reuse"}]
    rsets = ROWSETS if tier == "quick" else ROWSETS_T
    for rs in range(len(rsets)):
        for d in (1, 2):
            for k in range(1, len(rsets[rs]) + 1):
                if tier == "thorough" and k == 4:
                    for part in range(8):
                        sh.append({"k": "pop", "rowset": rs, "d": d, "nrows": k, "tier": tier, "part": part, "nparts": 8})
                else:
                    sh.append({"k": "pop", "rowset": rs, "d": d, "nrows": k, "tier": tier})
    for depth in (2, 3, 4):
        sh.append({"k": "roll", "depth": depth, "tier": tier})
    sh.append({"k": "paint", "tier": tier})
    sh.append({"k": "pacs", "tier": tier})
    return sh


def run_shard(d):
    acc = Acc()
    states = set()
    if d["k"] == "reuse":
        shared.run(acc, reuse_items(), reuse_eval, sample=lambda it: {"reuse_run_step": [it[2], [len(t) for t in it[1]]]})
        res = acc.result()
        res["extra"] = {"state_hashes": []}
        return res
    tier = d.get("tier", "quick")
    LENGTHS = globals()["LENGTHS"] if tier == "quick" else LENGTHS_T  # noqa: N806
    ROWSETS = globals()["ROWSETS"] if tier == "quick" else ROWSETS_T  # noqa: N806
    if d["k"] == "pop":
        rows = ROWSETS[d["rowset"]][: d["nrows"]]
        dd = d["d"]
        followups = [None, [1], [33], [1, 40]]
        lens_list = list(itertools.product([0] + (LENGTHS if len(rows) < 4 else [1, 32, 33, 40]), repeat=len(rows)))
        for li, lens in enumerate(lens_list):
            if d.get("nparts") and li % d["nparts"] != d["part"]:
                continue
            verdicts = set()
            for order in itertools.permutations(range(len(rows))):
                if ROWSETS[d["rowset"]] in ([13, 14, 15], [12, 13, 14, 15], [1, 2, 14, 15]) and list(order) != sorted(order):
                    continue  # adjacent rows are lines of one caption: top-down only (C05 domain)
                for fu in followups:
                    for same_second in (True, False):
                        if fu is None and same_second:
                            continue
                        grp = [(rows[i], mk(LETTERS[i], lens[i])) for i in order]
                        groups = [grp]
                        if fu:
                            for j, L in enumerate(fu):
                                groups.append([(8, mk(LETTERS[6 + j], L))])
                        texts = [t for g in groups for _, t in g if t]
                        doc = popon_doc(groups, dd, same_second)
                        v, res = judge(doc, texts, "pop-on")
                        acc.traces += 1
                        acc.transitions += sum(len(g) for g in groups)
                        states.add(h8(("pop", lens, order, fu, same_second)))
                        acc.case(("pop", d["rowset"], dd, lens, order, fu, same_second), bool(texts), res, {"mode": "pop-on", "groups": [[(r, len(t)) for r, t in g] for g in groups], "doubled": dd == 2, "same_second": same_second})
                        if fu is None:
                            verdicts.add(res[0])
                        for sig, det in v:
                            acc.violation(sig, {"k": "pop", "groups": groups, "d": dd, "same_second": same_second}, det)
            if len(verdicts) > 1:
                acc.violation("C15/pop-on/verdict-depends-on-row-order", {"k": "pop-order", "rowset": d["rowset"], "lens": lens, "d": dd}, {"verdicts": sorted(verdicts)})
    elif d["k"] == "roll":
        for n in range(1, 5):
            for lens in itertools.product(LENGTHS, repeat=n):
                for dd in (1, 2):
                    texts = [mk(LETTERS[i], L) for i, L in enumerate(lens)]
                    doc = rollup_doc(d["depth"], texts, dd)
                    v, res = judge(doc, texts, f"roll-up{d['depth']}")
                    acc.traces += 1
                    acc.transitions += n
                    states.add(h8(("roll", d["depth"], lens)))
                    acc.case(("roll", d["depth"], lens, dd), True, res, {"mode": f"roll-up {d['depth']}", "row_lengths": lens, "doubled": dd == 2})
                    for sig, det in v:
                        acc.violation(sig, {"k": "roll", "depth": d["depth"], "texts": texts, "d": dd}, det)
    elif d["k"] == "pacs":
        # every pair of neighbouring rows, addressed with every spelling of the preamble address code
        global PAC_STYLE
        try:
            for r in range(1, 15):
                for st in itertools.product(PAC_STYLES, repeat=2):
                    PAC_STYLE = st
                    for lens in ((32, 5), (5, 32), (32, 32), (33, 1), (1, 40)):
                        for dd in (1, 2):
                            texts = [mk("A", lens[0]), mk("G" if lens[1] == 5 else "H", lens[1])]
                            for mode in ("pop", "paint"):
                                if mode == "pop":
                                    groups = [[(r, texts[0]), (r + 1, texts[1])]]
                                    doc = popon_doc(groups, dd, False)
                                    case = {"k": "pop", "groups": groups, "d": dd, "same_second": False, "pac_style": list(st)}
                                else:
                                    doc = painton_doc([r, r + 1], texts, dd)
                                    case = {"k": "paint", "rows": [r, r + 1], "texts": texts, "d": dd, "pac_style": list(st)}
                                v, res = judge(doc, texts, {"pop": "pop-on", "paint": "paint-on"}[mode])
                                acc.traces += 1
                                acc.transitions += 2
                                states.add(h8(("pacs", r, st, lens, mode)))
                                acc.case(("pacs", r, st, lens, dd, mode), True, res, {"mode": mode, "rows": [r, r + 1], "preamble_spelling_even_odd_row": list(st), "row_lengths": lens, "doubled": dd == 2})
                                for sig, det in v:
                                    acc.violation(sig + "/preamble-spelling:" + "+".join(sorted(set(st))), case, det)
        finally:
            PAC_STYLE = ("plain", "plain")
        # rows made of two italic words (italics, plain, italics again), above / below / away from an ordinary row
        for r1, r2 in ((14, 15), (5, 6), (1, 8), (8, 1), (15, 1)):
            for lens in ((32, 5), (33, 5), (5, 33), (32, 32), (40, 1), (5, 32), (31, 33)):
                for e_first in (True, False):
                    for dd in (1, 2):
                        texts = [mk("E" if e_first else "A", lens[0]), mk("A" if e_first else "E", lens[1])]
                        for mode in ("pop", "paint"):
                            if mode == "pop":
                                if r2 != r1 + 1 and r1 > r2:
                                    continue
                                groups = [[(r1, texts[0]), (r2, texts[1])]]
                                doc = popon_doc(groups, dd, False)
                                case = {"k": "pop", "groups": groups, "d": dd, "same_second": False}
                            else:
                                doc = painton_doc([r1, r2], texts, dd)
                                case = {"k": "paint", "rows": [r1, r2], "texts": texts, "d": dd}
                            v, res = judge(doc, texts, {"pop": "pop-on", "paint": "paint-on"}[mode])
                            acc.traces += 1
                            acc.transitions += 2
                            states.add(h8(("two-italic", r1, r2, lens, e_first, mode)))
                            acc.case(("two-italic-words", r1, r2, lens, e_first, dd, mode), True, res, {"mode": mode, "rows": [r1, r2], "row_lengths": lens, "row_of_two_italic_words": 0 if e_first else 1, "doubled": dd == 2})
                            for sig, det in v:
                                acc.violation(sig, case, det)
        # a row that is too long in a stream that also holds a caption shown for one frame: still the line-length error
        for lens in ((33,), (40,), (33, 1), (1, 33), (40, 33)):
            for dd in (1, 2):
                for flash_first in (False, True):
                    texts = [mk(LETTERS[i], L) for i, L in enumerate(lens)]
                    doc = flash_doc(texts, dd, flash_first)
                    v, res = judge(doc, texts + ["Zz"], "pop-on")
                    acc.traces += 1
                    acc.case(("flash", lens, dd, flash_first), True, res, {"mode": "pop-on", "row_lengths": lens, "doubled": dd == 2, "one_frame_caption": "before" if flash_first else "after"})
                    for sig, det in v:
                        acc.violation(sig + "/stream-also-holds-a-one-frame-caption", {"k": "flash", "texts": texts, "d": dd, "flash_first": flash_first}, det)
    else:
        for rows in ([15], [14, 15], [1, 8, 15], [12, 13, 14, 15], [1, 2, 8, 9]):
            for lens in itertools.product(LENGTHS, repeat=len(rows)):
                for dd in (1, 2):
                    texts = [mk(LETTERS[i], L) for i, L in enumerate(lens)]
                    doc = painton_doc(rows, texts, dd)
                    v, res = judge(doc, texts, "paint-on")
                    acc.traces += 1
                    acc.transitions += len(rows)
                    states.add(h8(("paint", rows, lens)))
                    acc.case(("paint", rows, lens, dd), True, res, {"mode": "paint-on", "rows": rows, "row_lengths": lens, "doubled": dd == 2})
                    for sig, det in v:
                        acc.violation(sig, {"k": "paint", "rows": rows, "texts": texts, "d": dd}, det)
    res = acc.result()
    res["extra"] = {"state_hashes": sorted(states)}
    return res


def finish(agg, tier, seed):
    u = set()
    for e in agg["extra"]:
        if e:
            u.update(e["state_hashes"])
    agg["states"] = len(u)


def replay(case):
    if case.get("reuse"):
        return shared.replay(reuse_items(), reuse_eval, case["index"])
    k = case["k"]
    global PAC_STYLE
    if case.get("pac_style"):
        PAC_STYLE = tuple(case["pac_style"])
        try:
            out = replay({kk: vv for kk, vv in case.items() if kk != "pac_style"})
        finally:
            PAC_STYLE = ("plain", "plain")
        return [dict(o, sig=o["sig"] + "/preamble-spelling:" + "+".join(sorted(set(case["pac_style"])))) for o in out]
    if k == "pop":
        groups = [[tuple(x) for x in g] for g in case["groups"]]
        texts = [t for g in groups for _, t in g if t]
        v, _ = judge(popon_doc(groups, case["d"], case["same_second"]), texts, "pop-on")
    elif k == "roll":
        v, _ = judge(rollup_doc(case["depth"], case["texts"], case["d"]), case["texts"], f"roll-up{case['depth']}")
    elif k == "flash":
        v, _ = judge(flash_doc(case["texts"], case["d"], case["flash_first"]), case["texts"] + ["Zz"], "pop-on")
        v = [(s_ + "/stream-also-holds-a-one-frame-caption", d_) for s_, d_ in v]
    elif k == "paint":
        v, _ = judge(painton_doc(case["rows"], case["texts"], case["d"]), case["texts"], "paint-on")
    else:
        # order-dependence: recompute over all orders
        rows = ROWSETS[case["rowset"]][: len(case["lens"])]
        verdicts = set()
        for order in itertools.permutations(range(len(rows))):
            grp = [(rows[i], mk(LETTERS[i], case["lens"][i])) for i in order]
            texts = [t for _, t in grp if t]
            _, res = judge(popon_doc([grp], case["d"], False), texts, "pop-on")
            verdicts.add(res[0])
        v = [("C15/pop-on/verdict-depends-on-row-order", {"verdicts": sorted(verdicts)})] if len(verdicts) > 1 else []
    return [{"sig": s, "detail": d} for s, d in v]
