"""C18  Geometry values compare, hash, parse and print consistently.

E3, bounded-exhaustive:
  S. Size.from_string on every string of length <= N over a 14-character alphabet vs. a reference grammar
  L. from_xml_attribute of Padding / Point / Stretch on all space-joined lists of 1..5 representative sizes
  P. all ordered pairs of a value grid (sizes, points, stretches, paddings, alignments, layouts, foreign
     objects): truthiness of == <=> component-wise equality of the construction parameters; == implies equal hash
  R. as_percentage_of / fit_to_screen leave the receiver untouched (deep reflective snapshot before/after)
  T. str(): at most two decimals, within 0.005 of the exact value, and from_string(str(x)) prints identically
"""
import itertools
import re
from decimal import Decimal
from fractions import Fraction

from mc.acc import Acc

ID = "C18"
LEVEL = "exploration"
RULE = (
    "S: all strings len<=N over ALPHABET; L: all lists of 1..5 sizes from 5 representatives; P: all ordered pairs of the "
    "value grid; R: every grid value x video-size configurations; T: value lattice k/1000 (k=0..20000) plus large "
    "values x 5 units. distinct = distinct (sub-domain, input); non-trivial = every case except the empty string"
)
ASSUMPTIONS = [
    "characters outside the alphabet and longer strings are explored only as single edits of twelve valid spellings (upper-case unit letters, white space of every kind, other separators); digits are the ASCII digits - other Unicode decimal digits are not explored",
    "reference grammar: (digits [. digits]) (px|em|%|c|pt) or the bare string '0'",
    "on an exact decimal tie either rounding direction is accepted when printing",
]
TRUSTED = ["fractions.Fraction", "decimal.Decimal", "re (only inside the reference grammar, an independent pattern)"]
MANIFEST = {
    "technique": "bounded-exhaustive enumeration: all strings <= N over a 14-char alphabet against a reference grammar; all ordered pairs of a geometry value grid for ==/hash coherence; receiver-immutability snapshots",
    "text": "Every string within the length bound is parsed by the real Size.from_string and compared with an independent grammar; every ordered pair of grid values is compared and hashed; each transformation is checked not to modify its receiver.",
    "note": "Value grid samples magnitudes (exhaustive in units, alignments and None-ness); string alphabet is the one named in the property (no newline, no non-ASCII digits).",
}

ALPHABET = list("015.-+epxtcm% ")
UNITS = ["px", "em", "%", "c", "pt"]
VALID_BASES = ["0", "1px", "12pt", "0.5em", "10%", "2c", "33.33%", "100px", "1.50em", "7c", "0px", "0.0pt"]
EDIT_CHARS = list("PXEMCTpxemct%0159.,-+ \t\n\r\x0b\x0c\u00a0eE_") + ["\u2028"]
REF = re.compile(r"\A(?:([0-9]+(?:\.[0-9]+)?)(px|em|%|c|pt)|0)\Z")


def bounds(tier):
    return {"string_length": 4 if tier == "quick" else 6, "alphabet": "".join(ALPHABET)}


# ---- S --------------------------------------------------------------------------------------
def eval_size_string(s):
    from pycaption.exceptions import CaptionReadSyntaxError
    from pycaption.geometry import Size

    m = REF.match(s)
    try:
        got = Size.from_string(s)
        res = ("ok", got.value, got.unit.value)
    except CaptionReadSyntaxError:
        res = ("syntax-error",)
    except Exception as e:  # noqa
        res = ("raises", type(e).__name__)
    v = []
    if m is None:
        if res[0] != "syntax-error":
            v.append((f"C18/parse/should-reject/{res[0]}" + (f":{res[1]}" if res[0] == "raises" else ""), {"s": s, "got": res}))
    else:
        if res[0] != "ok":
            v.append((f"C18/parse/should-accept/{res[0]}", {"s": s, "got": res}))
        elif m.group(1) is None:
            if res[1] != 0.0:
                v.append(("C18/parse/bare-zero-value", {"s": s, "got": res}))
        else:
            if res[1] != float(m.group(1)) or res[2] != m.group(2) or not isinstance(res[1], float):
                v.append(("C18/parse/wrong-value-or-unit", {"s": s, "got": res}))
    return v, res[0] if res[0] != "ok" else ("ok", res[2])


# ---- L --------------------------------------------------------------------------------------
REP = ["1px", "2%", "0", "3.5em", "4c"]


def eval_list(kind, items):
    from pycaption.geometry import Padding, Point, Stretch

    attr = " ".join(items)
    v = []

    def sz(x):
        m = REF.match(x)
        return (0.0, "px") if m.group(1) is None else (float(m.group(1)), m.group(2))

    def got_sz(x):
        return (x.value, x.unit.value)

    try:
        if kind == "padding":
            p = Padding.from_xml_attribute(attr)
            got = ("ok", got_sz(p.before), got_sz(p.end), got_sz(p.after), got_sz(p.start))
        elif kind == "point":
            p = Point.from_xml_attribute(attr)
            got = ("ok", got_sz(p.x), got_sz(p.y))
        else:
            p = Stretch.from_xml_attribute(attr)
            got = ("ok", got_sz(p.horizontal), got_sz(p.vertical))
    except Exception as e:  # noqa
        got = ("raises", type(e).__name__)
    n = len(items)
    z = [sz(i) for i in items]
    if kind == "padding":
        want = {1: lambda: (z[0],) * 4, 2: lambda: (z[0], z[1], z[0], z[1]), 3: lambda: (z[0], z[1], z[2], z[1]), 4: lambda: (z[0], z[1], z[2], z[3])}.get(n)
        if want:
            if got != ("ok",) + tuple(want()):
                v.append((f"C18/padding-shorthand/arity{n}", {"attr": attr, "got": got, "want_before_end_after_start": want()}))
        elif got[0] == "ok":
            v.append((f"C18/padding-shorthand/arity{n}-accepted", {"attr": attr, "got": got}))
    else:
        if n == 2:
            if got != ("ok", z[0], z[1]):
                v.append((f"C18/{kind}-attribute/wrong", {"attr": attr, "got": got}))
        elif got[0] == "ok":
            v.append((f"C18/{kind}-attribute/arity{n}-accepted", {"attr": attr, "got": got}))
    return v, got[0]


# ---- P: value grid ----------------------------------------------------------------------------
SIZE_VALUES = [0, 1, 1.0, 1.005, 33.333, 0.3, 0.1 + 0.2, 100 / 3, 33.33333333333333]


def grid_specs():
    """Specs are plain tuples; spec equality (after normalisation) is the reference equality."""
    sizes = [("size", float(v), u) for v in SIZE_VALUES for u in UNITS]
    # dedupe (1 and 1.0)
    sizes = list(dict.fromkeys(sizes))
    s = [("size", 0.0, "%"), ("size", 1.0, "px"), ("size", 1.0, "%"), ("size", 1.005, "%"), ("size", 33.333, "c")]
    points = [("point", a, b) for a in s[:4] for b in s[:4]]
    stretches = [("stretch", a, b) for a in s[:4] for b in s[:4]]
    pads = []
    for combo in itertools.product([None, s[1], s[2]], repeat=4):
        pads.append(("padding",) + combo)
    aligns = [("alignment", h, v) for h in [None, "left", "center", "right", "start", "end"] for v in [None, "top", "center", "bottom"]]
    lay = []
    o = [None, points[0], points[5], points[6]]
    e = [None, stretches[5], stretches[6]]
    p = [None, pads[0], pads[1], pads[40]]
    a = [None, aligns[5], aligns[6], aligns[23]]
    for oo, ee, pp, aa in itertools.product(o, e, p, a):
        lay.append(("layout", oo, ee, pp, aa, None))
    big = ("stretch", ("size", 80.0, "%"), ("size", 80.0, "%"))
    mid = ("point", ("size", 35.0, "%"), ("size", 25.0, "%"))
    lay.append(("layout", mid, big, None, None, None))
    lay.append(("layout", mid, ("stretch", ("size", 80.0, "%"), ("size", 10.0, "%")), p[1], a[1], None))
    lay.append(("layout", mid, ("stretch", ("size", 10.0, "%"), ("size", 80.0, "%")), None, None, None))
    lay.append(("layout", o[1], e[1], p[1], a[1], "align:left"))
    lay.append(("layout", o[1], e[1], p[1], a[1], "line:10%"))
    lay.append(("layout", None, None, None, None, "line:10%"))
    foreign = [("none",), ("str", "1px"), ("int", 1), ("tuple",)]
    return sizes + points + stretches + pads + aligns + lay + foreign


def norm(spec):
    """Reference normal form: the geometric components that define the value."""
    if spec is None:
        return None
    k = spec[0]
    if k == "size":
        return ("size", float(spec[1]), spec[2])
    if k in ("point", "stretch"):
        return (k, norm(spec[1]), norm(spec[2]))
    if k == "padding":
        z = ("size", 0.0, "%")
        return ("padding",) + tuple(norm(x) if x is not None else z for x in spec[1:])
    if k == "alignment":
        return spec
    if k == "layout":
        return ("layout", norm(spec[1]), norm(spec[2]), norm(spec[3]), norm(spec[4]))  # webvtt_positioning is not geometric
    return ("foreign",) + spec


def make(spec):
    from pycaption import geometry as g

    if spec is None:
        return None
    k = spec[0]
    if k == "size":
        return g.Size(spec[1], g.UnitEnum(spec[2]))
    if k == "point":
        return g.Point(make(spec[1]), make(spec[2]))
    if k == "stretch":
        return g.Stretch(make(spec[1]), make(spec[2]))
    if k == "padding":
        return g.Padding(before=make(spec[1]), after=make(spec[2]), start=make(spec[3]), end=make(spec[4]))
    if k == "alignment":
        h = g.HorizontalAlignmentEnum(spec[1]) if spec[1] else None
        v = g.VerticalAlignmentEnum(spec[2]) if spec[2] else None
        return g.Alignment(h, v)
    if k == "layout":
        return g.Layout(origin=make(spec[1]), extent=make(spec[2]), padding=make(spec[3]), alignment=make(spec[4]), webvtt_positioning=spec[5])
    if k == "none":
        return None
    if k == "str":
        return spec[1]
    if k == "int":
        return spec[1]
    return ()


def eval_pair(sa, sb):
    v = []
    a, b = make(sa), make(sb)
    if a is None:
        return v, "skip"
    want = norm(sa) == norm(sb) and sa[0] not in ("none", "str", "int", "tuple")
    try:
        got = bool(a == b)
    except Exception as e:  # noqa
        return [(f"C18/eq/raises:{type(e).__name__}/{sa[0]}-vs-{sb[0]}", {"a": sa, "b": sb})], "raises"
    if sa[0] in ("str", "int", "tuple"):
        return v, "foreign-left"
    if got != want:
        v.append((f"C18/eq/{'false-positive' if got else 'false-negative'}/{sa[0]}-vs-{sb[0]}", {"a": sa, "b": sb}))
    try:
        ne = bool(a != b)
        if ne == got:
            v.append((f"C18/eq/ne-inconsistent/{sa[0]}-vs-{sb[0]}", {"a": sa, "b": sb}))
    except Exception as e:  # noqa
        v.append((f"C18/ne/raises:{type(e).__name__}/{sa[0]}-vs-{sb[0]}", {"a": sa, "b": sb}))
    if want:
        try:
            if hash(a) != hash(b):
                v.append((f"C18/hash/equal-values-different-hash/{sa[0]}", {"a": sa, "b": sb}))
        except Exception as e:  # noqa
            v.append((f"C18/hash/raises:{type(e).__name__}/{sa[0]}", {"a": sa, "b": sb}))
    return v, (got, sa[0], sb[0])


# ---- R: receiver immutability -----------------------------------------------------------------
def deep(o, depth=0):
    import enum

    if o is None or isinstance(o, (int, float, str, bool)):
        return o
    if isinstance(o, enum.Enum):
        return ("enum", o.value)
    if isinstance(o, (list, tuple)):
        return tuple(deep(x, depth + 1) for x in o)
    if isinstance(o, dict):
        return tuple(sorted((str(k), deep(x, depth + 1)) for k, x in o.items()))
    if depth > 12:
        return "..."
    return (type(o).__name__,) + tuple(sorted((k, deep(x, depth + 1)) for k, x in vars(o).items()))


VIDEO = [(640, 360), (None, None), (640, None), (None, 360)]


def eval_receiver(spec):
    v = []
    a = make(spec)
    before = deep(a)
    kinds = []
    try:
        hash(a)  # the receiver has been used as a dictionary key / set member before: no result may inherit anything from that
    except TypeError:
        pass
    for vw, vh in VIDEO:
        try:
            if spec[0] == "size":
                r = a.as_percentage_of(video_width=vw) if vw else a.as_percentage_of(video_height=vh)
                twin = make(spec).as_percentage_of(video_width=vw) if vw else make(spec).as_percentage_of(video_height=vh)
            else:
                r = a.as_percentage_of(vw, vh)
                twin = make(spec).as_percentage_of(vw, vh)
            kinds.append("ok")
            if r is not None and (not (r == twin) or hash(r) != hash(twin)):
                v.append((f"C18/result-differs-from-the-result-of-an-identically-built-unhashed-value/as_percentage_of/{spec[0]}", {"spec": spec, "video": [vw, vh]}))
            if r is a and deep(r) != before:
                v.append((f"C18/receiver-modified/as_percentage_of/{spec[0]}", {"spec": spec}))
        except Exception as e:  # noqa
            kinds.append(type(e).__name__)
        if deep(a) != before:
            v.append((f"C18/receiver-modified/as_percentage_of/{spec[0]}", {"spec": spec, "video": [vw, vh]}))
            a = make(spec)
    if spec[0] == "layout":
        try:
            rel = a.as_percentage_of(640, 360)
            b2 = deep(rel)
            twin = make(spec).as_percentage_of(640, 360)
            r = rel.fit_to_screen()
            kinds.append("fit-ok")
            if deep(rel) != b2:
                v.append(("C18/receiver-modified/fit_to_screen/layout", {"spec": spec}))
            if not (rel == twin) or hash(rel) != hash(twin):
                v.append(("C18/receiver-no-longer-equal-to-identically-built-value/fit_to_screen", {"spec": spec}))
            if r is not rel and rel.origin and deep(r) == b2 and False:
                pass
        except Exception as e:  # noqa
            kinds.append("fit:" + type(e).__name__)
    return v, tuple(kinds)


# ---- T: printing --------------------------------------------------------------------------------
def eval_print(value, unit):
    from pycaption.geometry import Size, UnitEnum

    v = []
    s = Size(value, UnitEnum(unit))
    txt = str(s)
    m = re.match(r"\A(-?[0-9]+)(?:\.([0-9]+))?(px|em|%|c|pt)\Z", txt)
    if not m:
        return [("C18/print/not-a-plain-decimal", {"value": value, "unit": unit, "printed": txt})], "bad"
    if m.group(2) and len(m.group(2)) > 2:
        v.append(("C18/print/more-than-two-decimals", {"value": value, "unit": unit, "printed": txt}))
    if m.group(3) != unit:
        v.append(("C18/print/unit-changed", {"value": value, "unit": unit, "printed": txt}))
    num = Fraction(Decimal(txt[: -len(m.group(3))]))
    if abs(num - Fraction(float(value))) > Fraction(1, 200):
        v.append(("C18/print/not-rounded-to-two-decimals", {"value": value, "unit": unit, "printed": txt}))
    try:
        again = str(Size.from_string(txt))
        if again != txt:
            v.append(("C18/print/reparse-prints-differently", {"value": value, "printed": txt, "again": again}))
    except Exception as e:  # noqa
        if value >= 0:
            v.append((f"C18/print/reparse-raises:{type(e).__name__}", {"value": value, "printed": txt}))
    return v, len(m.group(2) or "")


# ---------------------------------------------------------------------------------------------
def shards(tier, seed):
    n = bounds(tier)["string_length"]
    sh = []
    if tier == "quick":
        sh += [{"k": "S", "first": [c], "n": n} for c in ALPHABET]
    else:
        sh += [{"k": "S", "first": [a, b], "n": n} for a in ALPHABET for b in ALPHABET]
        sh += [{"k": "S", "first": [a], "n": 1} for a in ALPHABET]
    sh.append({"k": "S0"})
    sh.append({"k": "V"})
    sh.append({"k": "L"})
    g = len(grid_specs())
    step = 40 if tier == "quick" else 20
    for i in range(0, g, step):
        sh.append({"k": "P", "lo": i, "hi": min(g, i + step)})
    sh.append({"k": "R"})
    for u in UNITS:
        sh.append({"k": "T", "unit": u, "kmax": 20000 if tier == "quick" else 200000})
    return sh


def run_shard(d):
    acc = Acc()
    k = d["k"]
    if k == "S":
        first = "".join(d["first"])
        for ln in range(0, d["n"] - len(d["first"]) + 1):
            for rest in itertools.product(ALPHABET, repeat=ln):
                s = first + "".join(rest)
                v, o = eval_size_string(s)
                acc.case(("S", s), True, o, {"from_string": s, "outcome": o} if o != "syntax-error" else None)
                for sig, det in v:
                    acc.violation(sig, {"k": "S", "s": s}, det)
    elif k == "V":
        # every valid spelling of a small set, and every string one edit away from it over a wider alphabet (upper-case
        # unit letters, other digits and separators, white space of every kind)
        seen = set()
        for base in VALID_BASES:
            cands = {base, base.upper(), base.lower(), base.title(), base.swapcase()}
            for i in range(len(base) + 1):
                for ch in EDIT_CHARS:
                    cands.add(base[:i] + ch + base[i:])
                    if i < len(base):
                        cands.add(base[:i] + ch + base[i + 1 :])
                if i < len(base):
                    cands.add(base[:i] + base[i + 1 :])
                    cands.add(base[:i] + base[i].swapcase() + base[i + 1 :])
            for s in sorted(cands - seen):
                seen.add(s)
                v, o = eval_size_string(s)
                acc.case(("V", s), True, o, {"from_string": s, "outcome": o} if o != "syntax-error" else None)
                for sig, det in v:
                    acc.violation(sig + "/one-edit-from-a-valid-size", {"k": "V", "s": s}, det)
    elif k == "S0":
        v, o = eval_size_string("")
        acc.case(("S", ""), False, o)
        for sig, det in v:
            acc.violation(sig, {"k": "S", "s": ""}, det)
    elif k == "L":
        for kind in ("padding", "point", "stretch"):
            for n in range(1, 6):
                for items in itertools.product(REP, repeat=n):
                    v, o = eval_list(kind, list(items))
                    acc.case(("L", kind, items), True, (kind, n, o), {"kind": kind, "attr": " ".join(items)})
                    for sig, det in v:
                        acc.violation(sig, {"k": "L", "kind": kind, "items": list(items)}, det)
    elif k == "P":
        g = grid_specs()
        for i in range(d["lo"], d["hi"]):
            for j in range(len(g)):
                v, o = eval_pair(g[i], g[j])
                acc.case(("P", i, j), True, o, {"a": g[i], "b": g[j], "eq": o[0]} if isinstance(o, tuple) and o[0] else None)
                for sig, det in v:
                    acc.violation(sig, {"k": "P", "a": g[i], "b": g[j]}, det)
        acc.count("grid_values", d["hi"] - d["lo"])
    elif k == "R":
        for spec in grid_specs():
            if spec[0] in ("none", "str", "int", "tuple", "alignment"):
                continue
            v, o = eval_receiver(spec)
            acc.case(("R", spec), True, o, {"receiver": spec, "outcomes": o})
            for sig, det in v:
                acc.violation(sig, {"k": "R", "spec": spec}, det)
    elif k == "T":
        vals = [i / 1000.0 for i in range(0, d["kmax"] + 1)] + [99.995, 100.0, 640.0, 1919.999, 123456.785, 1e6 + 0.125, 0.125, 0.375, 2.675, 1.005]
        for val in vals:
            v, o = eval_print(val, d["unit"])
            acc.case(("T", val, d["unit"]), True, o, {"value": val, "unit": d["unit"]})
            for sig, det in v:
                acc.violation(sig, {"k": "T", "value": val, "unit": d["unit"]}, det)
    return acc.result()


def _tup(x):
    if isinstance(x, list):
        return tuple(_tup(i) for i in x)
    return x


def replay(case):
    k = case["k"]
    if k == "S":
        v, _ = eval_size_string(case["s"])
    elif k == "V":
        v, _ = eval_size_string(case["s"])
        v = [(sig + "/one-edit-from-a-valid-size", det) for sig, det in v]
    elif k == "L":
        v, _ = eval_list(case["kind"], case["items"])
    elif k == "P":
        v, _ = eval_pair(_tup(case["a"]), _tup(case["b"]))
    elif k == "R":
        v, _ = eval_receiver(_tup(case["spec"]))
    else:
        v, _ = eval_print(case["value"], case["unit"])
    return [{"sig": s, "detail": d} for s, d in v]
