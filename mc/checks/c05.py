"""C05  SCC pop-on decoding reproduces the CEA-608 screen: text, rows, italics, position.

Model checking against a reference model: programs (sequences of code-word events) are enumerated from the
pop-on grammar, with the grammar's guards evaluated on the state of the reference CEA-608 decoder
(mc.ref.cea608.Decoder). Every program is executed on the real SCCReader (whole-document read, i.e. every
model trace is replayed against the implementation) and, at every End-Of-Caption, the captions returned are
compared with the reference decoder's displayed memory. Two- and three-caption programs start the later
captions from non-initial decoder states.
"""
import itertools

from mc import shared
from mc.acc import Acc, h8
from mc.ref import cea608 as C

ID = "C05"
LEVEL = "model_checking"
RULE = (
    "programs = preamble x rows (PAC [+TO], italic PAC) x load-event sequences up to a length bound, single and doubled; "
    "full product for single-row captions, <=2 loads per row for multi-row layouts, representative first captions x all "
    "second captions for multi-caption programs; plus complete table sweeps (15x8 PAC x TO 0..3, 96 basic, 16 special, 64 "
    "extended codes). states = distinct reference-decoder states reached; transitions = events fed; traces = programs replayed "
    "on the real reader (all of them). non-trivial = program displays at least one character"
)
ASSUMPTIONS = [
    "domain restrictions of DESIGN.md section 4: rows of one caption transmitted top-down, one PAC per row, no colour/underline codes, "
    "extended characters only after their stand-in, backspace only after a character cell on the same row, no immediate repetition of an "
    "identical control/special code in a non-doubled program, every caption preceded by ENM, rows never exceed 32 columns",
    "the solid-block character 0x7f is excluded from the basic-table sweep (pycaption maps it to nothing; recorded as an out-of-domain note)",
    "spaces are compared modulo run-collapse and line trim (mid-row codes occupy a cell on a real decoder)",
]
TRUSTED = ["mc.ref.cea608 (reference decoder written from CTA-608-E)"]
MANIFEST = {
    "technique": "explicit enumeration of all pop-on programs within event/length bounds guarded by a reference CEA-608 decoder state machine; every model trace replayed on the real SCCReader and compared at each End-Of-Caption",
    "text": "Reference-model checking: the decoder model defines the screen; each enumerated program is run through the real reader and the captions (characters, line structure, italic flags, position, grouping, equal times) are compared with the model's displayed memory.",
    "note": "Bounded program length and event alphabet; the model is the trusted base; a known carry-over of the position tracker between captions is listed in known_findings.json.",
}


def bounds(tier):
    return {"single_row_loads": 3 if tier == "quick" else 4, "multi_row_loads": 2, "second_caption_loads": 2, "captions": 3}


LOADS = [("C2", "A", "b"), ("C1", "A"), ("C2", " ", "b"), ("SP", 0x37), ("EXT", "E", 0x12, 0x21), ("BS",), ("MRI",), ("MRP",)]
CTRL_KINDS = {"SP", "EXT", "BS", "MRI", "MRP", "MRIU", "MRPU"}


def ev_words(ev, doubled):
    k = ev[0]
    d = 2 if doubled else 1
    if k in ("ENM", "RCL", "EOC", "EDM"):
        return [getattr(C, k)] * d
    if k == "PAC":
        _, row, col, italic, to = ev
        # italic: False / True, or "U" (plain, underlined) / "IU" (italic, underlined): the underline bit is no concern of
        # the property, but the codes that carry it address rows and switch italics like their plain twins
        unit = [C.pac(row, col, italic in (True, "IU"), underline=italic in ("U", "IU"))] + ([C.tab(to)] if to else [])
        return unit * d
    if k == "C2":
        return [C.chars(ev[1], ev[2])]
    if k == "C1":
        return [C.chars(ev[1])]
    if k == "SP":
        return [C.special(ev[1])] * d
    if k == "EXT":
        return [C.chars(ev[1])] + [C.extended(ev[2], ev[3])] * d
    if k == "BS":
        return [C.BS] * d
    if k == "MRI":
        return [C.MR_ITALIC] * d
    if k == "MRP":
        return [C.MR_PLAIN] * d
    if k == "MRIU":
        return [C.word(0x11, 0x2F)] * d  # mid-row: italics, underlined
    if k == "MRPU":
        return [C.word(0x11, 0x21)] * d  # mid-row: white, underlined (italics off)
    raise ValueError(ev)


class Guard:
    """Domain guard evaluated on the reference decoder's state (and a little bookkeeping about cell kinds)."""

    def __init__(self):
        self.dec = C.Decoder()
        self.kinds = {}  # (row, col) -> 'char' | 'midrow'
        self.prev = None
        self.states = set()
        self.transitions = 0
        self.rows_addressed = []
        self.out_of_domain = False

    def allowed(self, ev, doubled):
        k = ev[0]
        if k in CTRL_KINDS and self.prev == ev and not doubled:
            return False
        if k in ("MRI", "MRP", "MRIU", "MRPU") and self.prev is not None and self.prev[0] in ("MRI", "MRP", "MRIU", "MRPU") and self.prev == ev:
            return False
        d = self.dec
        if k == "BS":
            if d.row is None or d.col == 0:
                return False
            if self.kinds.get((d.row, d.col - 1)) != "char":
                return False
        n = {"C2": 2, "C1": 1, "SP": 1, "EXT": 1, "MRI": 1, "MRP": 1, "MRIU": 1, "MRPU": 1}.get(k, 0)
        if n and d.col + n > 32:
            return False
        return True

    def feed(self, ev, doubled):
        d = self.dec
        k = ev[0]
        row, col = d.row, d.col
        for w in ev_words(ev, doubled):
            d.feed(w)
        self.transitions += 1
        if k in ("C2", "C1", "SP"):
            for c in range(col, d.col):
                self.kinds[(row, c)] = "char"
        elif k == "EXT":
            self.kinds[(row, col)] = "char"
        elif k in ("MRI", "MRP", "MRIU", "MRPU"):
            self.kinds[(row, col)] = "midrow"
        elif k == "BS":
            self.kinds.pop((row, d.col), None)
        elif k == "ENM":
            self.kinds = {}
            self.rows_addressed = []
        elif k == "PAC":
            self.rows_addressed.append(ev[1])
        elif k == "EOC":
            for r in self.rows_addressed:
                cells = d.disp.get(r, {})
                if not any(not c.isspace() for c, _ in cells.values()):
                    self.out_of_domain = True  # a row without any visible character
            self.rows_addressed = []
        self.prev = ev
        self.states.add(h8(repr(d.key())))


# ---- program -> document -> comparison ----------------------------------------------------------------------
def program_doc(captions, doubled):
    """captions: list of event lists (each ending with EOC). One caption per line, 4 s apart, final EDM."""
    lines = ["Scenarist_SCC V1.0", ""]
    for i, evs in enumerate(captions):
        words = []
        for ev in evs:
            words += ev_words(ev, doubled)
        lines.append(f"00:00:{4 * i + 1:02d}:00\t" + " ".join(words))
        lines.append("")
    lines.append(f"00:00:{4 * len(captions) + 1:02d}:00\t" + " ".join([C.EDM] * (2 if doubled else 1)))
    lines.append("")
    return "\n".join(lines)


def model_groups(captions, doubled, guard=None):
    """expected caption groups (one per EOC) from the reference decoder"""
    g = guard or Guard()
    groups = []
    for evs in captions:
        for ev in evs:
            g.feed(ev, doubled)
            if ev[0] == "EOC":
                groups.append(g.dec.screen_captions())
    return groups, g


def real_caption_view(cap):
    """Caption -> (lines [(text, flags)], balanced?)"""
    lines = [[]]
    italic = 0
    balanced = True
    for n in cap.nodes:
        if n.type_ == 1:
            for ch in n.content:
                lines[-1].append((ch, italic > 0))
        elif n.type_ == 3:
            lines.append([])
        elif n.type_ == 2:
            if n.content.get("italics"):
                if n.start:
                    italic += 1
                    if italic > 1:
                        balanced = False
                else:
                    italic -= 1
                    if italic < 0:
                        balanced = False
                        italic = 0
    if italic != 0:
        balanced = False
    return [C.visible(l) for l in lines], balanced


def compare(captions, doubled):
    """-> list of (kind, detail)"""
    from pycaption import SCCReader

    groups, g = model_groups(captions, doubled)
    if g.out_of_domain or g.dec.overflow:
        return None, g, "out-of-domain"
    doc = program_doc(captions, doubled)
    exp = [c for grp in groups for c in grp]
    try:
        cs = shared.obj(SCCReader).read(doc)
        real = list(cs.get_captions("en-US"))
    except Exception as e:  # noqa
        if not exp and type(e).__name__ == "CaptionReadNoCaptions":
            return [], g, "empty"
        return [(f"raises:{type(e).__name__}", {"err": str(e)[:200], "doc": doc})], g, "raises"
    out = []
    if len(real) != len(exp):
        out.append(("caption-count", {"got": [c.get_text() for c in real], "want": [["".join(ch for ch, _ in l) for l in c["lines"]] for c in exp], "doc": doc}))
        return out, g, "count"
    idx = 0
    for gi, grp in enumerate(groups):
        times = set()
        for ec in grp:
            rc = real[idx]
            idx += 1
            times.add((rc.start, rc.end))
            rl, balanced = real_caption_view(rc)
            el = [C.visible(l) for l in ec["lines"]]
            if not balanced:
                out.append(("italics-unbalanced", {"nodes": repr(rc.nodes), "doc": doc}))
            if [t for t, _ in rl] != [t for t, _ in el]:
                out.append(("text", {"caption": idx - 1, "got": [t for t, _ in rl], "want": [t for t, _ in el], "doc": doc}))
            elif [f for _, f in rl] != [f for _, f in el]:
                out.append(("italic-flags", {"caption": idx - 1, "got": [f for _, f in rl], "want": [f for _, f in el], "text": [t for t, _ in rl], "doc": doc}))
            lay = rc.layout_info
            wx = 10 + 80 * ec["col"] / 32.0
            wy = 5 + 90 * (ec["row"] - 1) / 15.0
            try:
                gx, gy = lay.origin.x.value, lay.origin.y.value
                ux, uy = lay.origin.x.unit.value, lay.origin.y.unit.value
            except Exception:  # noqa
                gx = gy = ux = uy = None
            if gx is None or abs(gx - wx) > 1e-9 or abs(gy - wy) > 1e-9 or ux != "%" or uy != "%":
                out.append(("position", {"caption": idx - 1, "got": [gx, gy, ux, uy], "want": [wx, wy], "want_row_col": [ec["row"], ec["col"]], "group": gi, "doc": doc}))
        if len(times) > 1:
            out.append(("group-times-differ", {"times": sorted(times), "doc": doc}))
    return out, g, tuple((c["row"], c["col"], tuple(C.visible(l) [0] for l in c["lines"])) for c in exp)


# ---- enumeration ---------------------------------------------------------------------------------------------
PREAMBLES = [[("ENM",), ("RCL",)], [("RCL",), ("ENM",)], [("ENM",), ("RCL",), ("ENM",)]]


def pac_variants(row):
    out = []
    for col in (0, 4, 28):
        for to in (0, 1, 2, 3):
            out.append(("PAC", row, col, False, to))
    for to in (0, 1, 2, 3):
        out.append(("PAC", row, 0, True, to))
    return out


def row_programs(row, maxloads, doubled, minloads=1):
    """all (PAC variant, load sequence) for one row, guarded. yields event lists"""
    for pv in pac_variants(row):
        def rec(prefix, guard_events):
            if len(prefix) >= minloads:
                yield [pv] + prefix
            if len(prefix) == maxloads:
                return
            for ld in LOADS:
                g = Guard()
                g.feed(("RCL",), doubled)
                g.feed(pv, doubled)
                ok = True
                for e in prefix:
                    g.feed(e, doubled)
                if not g.allowed(ld, doubled):
                    continue
                yield from rec(prefix + [ld], None)
        yield from rec([], None)


def has_visible(evs):
    return any(e[0] in ("C2", "C1", "SP", "EXT") for e in evs)


REP_ROWS = [
    [("C2", "A", "b")],
    [("MRI",), ("C2", "A", "b")],
    [("C2", "A", "b"), ("MRI",), ("C1", "A")],
    [("C2", "A", "b"), ("SP", 0x37)],
    [("EXT", "E", 0x12, 0x21)],
    [("C2", "A", "b"), ("BS",)],
]
LAYOUTS = [[14, 15], [13, 14, 15], [1, 15], [13, 15], [1, 2], [1, 14, 15]]

# representative first captions for multi-caption programs (cover: tracker on rows 14-15 / 1 / 15, italics left on,
# tab offsets, special / extended last, non-adjacent rows)
FIRST = [
    [("PAC", 15, 0, False, 0), ("C2", "A", "b")],
    [("PAC", 14, 0, False, 0), ("C2", "A", "b")],
    [("PAC", 1, 4, False, 2), ("C2", "A", "b")],
    [("PAC", 14, 0, False, 0), ("C2", "A", "b"), ("PAC", 15, 0, False, 0), ("C2", "A", "b")],
    [("PAC", 13, 4, False, 0), ("C2", "A", "b"), ("PAC", 14, 4, False, 0), ("C2", "A", "b"), ("PAC", 15, 4, False, 0), ("C1", "A")],
    [("PAC", 1, 0, False, 0), ("C2", "A", "b"), ("PAC", 15, 0, False, 0), ("C2", "A", "b")],
    [("PAC", 15, 0, True, 0), ("C2", "A", "b")],
    [("PAC", 15, 0, False, 0), ("C2", "A", "b"), ("MRI",), ("C2", "A", "b")],
    [("PAC", 15, 28, False, 3), ("C1", "A")],
    [("PAC", 14, 0, False, 0), ("C2", "A", "b"), ("SP", 0x37)],
    [("PAC", 15, 0, False, 0), ("EXT", "E", 0x12, 0x21)],
    [("PAC", 14, 8 if False else 4, False, 1), ("MRI",), ("C2", "A", "b"), ("PAC", 15, 0, False, 0), ("C2", "A", "b")],
]


def wrap(rows_events, pre=0, edm=False):
    return list(PREAMBLES[pre]) + rows_events + ([("EDM",)] if edm else []) + [("EOC",)]


def reuse_items():
    """programs for the run in which ONE SCCReader object reads them all, one after the other"""
    items = []
    for i, first in enumerate(FIRST):
        for j, second in enumerate(FIRST[:: 3]):
            items.append(([wrap(first), wrap(second)], bool((i + j) % 2)))
        items.append(([wrap(first, (i % 3), bool(i % 2))], bool(i % 2)))
    return items


def reuse_between():
    """the shared reader is given documents it rejects (a 40-column row, a mangled timecode) between judged reads"""
    from pycaption import SCCReader

    from mc.checks import c16

    for doc in (c16.REJECTED_DOC, c16.MANGLED_DOC):
        try:
            shared.obj(SCCReader).read(doc)
        except Exception:  # noqa
            pass


def reuse_eval(item):
    v, g, out = compare(item[0], item[1])
    return [(classify(kind, det, item[0], "reuse-run"), det) for kind, det in (v or [])], out


def shards(tier, seed):
    b = bounds(tier)
    sh = [{"k": "reuse"}]
    for row in (15, 1, 14):
        for doubled in (False, True):
            for pv_i in range(16):
                if row != 15 and tier == "quick" and pv_i % 4:
                    continue
                sh.append({"k": "single-row", "row": row, "doubled": doubled, "pv": pv_i, "maxloads": b["single_row_loads"] if row == 15 else min(3, b["single_row_loads"])})
    for li, lay in enumerate(LAYOUTS):
        for doubled in (False, True):
            sh.append({"k": "multi-row", "layout": li, "doubled": doubled})
    for fi in range(len(FIRST)):
        for doubled in (False, True):
            sh.append({"k": "two-captions", "first": fi, "doubled": doubled, "loads": b["second_caption_loads"]})
    for fi in range(len(FIRST)):
        sh.append({"k": "three-captions", "first": fi})
    sh.append({"k": "tables"})
    sh.append({"k": "italic-rows"})
    sh.append({"k": "underlined-codes"})
    sh.append({"k": "every-indent"})
    return sh


def check_program(acc, captions, doubled, klass):
    v, g, outcome = compare(captions, doubled)
    if v is None:
        acc.count("out_of_domain_programs_skipped")
        return
    acc.states_set.update(g.states)
    acc.transitions += g.transitions
    acc.traces += 1
    nontriv = any(has_visible(c) for c in captions)
    acc.case((captions, doubled), nontriv, outcome, {"doubled": doubled, "captions": captions})
    for kind, det in v:
        acc.violation(classify(kind, det, captions, klass), {"captions": captions, "doubled": doubled, "klass": klass}, det)


def classify(kind, det, captions, klass):
    """signature = failure kind + coarse input class"""
    feats = set()
    for c in captions:
        for e in c:
            if e[0] in ("MRI", "MRP", "MRIU", "MRPU"):
                feats.add("midrow")
            elif e[0] == "BS":
                feats.add("backspace")
            elif e[0] == "EXT":
                feats.add("extended")
            elif e[0] == "SP":
                feats.add("special")
            elif e[0] == "PAC" and e[3] in (True, "IU"):
                feats.add("italic-pac")
            elif e[0] == "PAC" and e[4]:
                feats.add("tab-offset")
    if kind == "position" and det.get("group", 0) > 0:
        return f"C05/{kind}/after-previous-caption"
    if kind in ("text", "caption-count") and len(captions) > 1:
        return f"C05/{kind}/multi-caption/" + "+".join(sorted(feats))
    return f"C05/{kind}/{klass}/" + "+".join(sorted(feats))


def run_shard(d):
    acc = Acc()
    acc.states_set = set()
    k = d["k"]
    if k == "reuse":
        shared.run(acc, reuse_items(), reuse_eval, between=reuse_between, sample=lambda it: {"reuse_run_step": it[0], "doubled": it[1]})
    elif k == "single-row":
        pv = pac_variants(d["row"])[d["pv"]]
        for evs in row_programs(d["row"], d["maxloads"], d["doubled"]):
            if evs[0] != pv:
                continue
            check_program(acc, [wrap(evs)], d["doubled"], "single-row")
            if len(evs) <= 3:
                for pre in (1, 2):
                    check_program(acc, [wrap(evs, pre)], d["doubled"], "single-row")
                check_program(acc, [wrap(evs, 0, True)], d["doubled"], "single-row")
    elif k == "multi-row":
        lay = LAYOUTS[d["layout"]]
        doubled = d["doubled"]
        per_row = {}
        for r in lay:
            per_row[r] = [e for e in row_programs(r, 2, doubled)]
        base = {r: [("PAC", r, 0, False, 0), ("C2", "A", "b")] for r in lay}
        # one row runs over its full product while the others take representative contents
        for r in lay:
            for evs in per_row[r]:
                for rep in REP_ROWS[:3]:
                    rows = []
                    for r2 in lay:
                        rows += evs if r2 == r else [("PAC", r2, 0, False, 0)] + rep
                    check_program(acc, [wrap(rows)], doubled, "multi-row")
        # pairwise: reduced sets on every row
        red = {r: [e for e in per_row[r] if len(e) <= 2] for r in lay}
        if len(lay) == 2:
            for a in red[lay[0]]:
                for bb in red[lay[1]]:
                    check_program(acc, [wrap(a + bb)], doubled, "multi-row")
    elif k == "two-captions":
        doubled = d["doubled"]
        first = FIRST[d["first"]]
        for row in (15, 14, 1):
            for evs in row_programs(row, d["loads"], doubled):
                check_program(acc, [wrap(first), wrap(evs)], doubled, "two-captions")
        for lay in LAYOUTS[:4]:
            for rep in REP_ROWS:
                rows = []
                for r in lay:
                    rows += [("PAC", r, 0, False, 0)] + rep
                check_program(acc, [wrap(first), wrap(rows)], doubled, "two-captions")
                check_program(acc, [wrap(first, 2, True), wrap(rows, 1)], doubled, "two-captions")
    elif k == "three-captions":
        first = FIRST[d["first"]]
        for second in FIRST:
            for third in FIRST:
                for doubled in (False, True):
                    check_program(acc, [wrap(first), wrap(second), wrap(third)], doubled, "three-captions")
    elif k == "underlined-codes":
        # the underlined twins of the preamble and mid-row codes: same addressing, same italics switching
        contents = [
            [("C2", "A", "b")],
            [("C2", "A", "b"), ("MRIU",), ("C2", "c", "d")],
            [("C2", "A", "b"), ("MRPU",), ("C2", "c", "d")],
            [("MRIU",), ("C2", "A", "b"), ("MRP",), ("C1", "c")],
            [("C2", "A", "b"), ("MRI",), ("C2", "c", "d"), ("MRPU",), ("C1", "e")],
            [("MRIU",), ("C2", "A", "b"), ("MRPU",), ("C2", "c", "d"), ("MRI",), ("C1", "e")],
        ]
        pacs = [False, True, "U", "IU"]
        for doubled in (False, True):
            for row in (15, 1, 8):
                for it in pacs:
                    for col, to in (((0, 0), (0, 2)) if it in (True, "IU") else ((0, 0), (4, 1), (28, 3))):
                        for cont in contents:
                            check_program(acc, [wrap([("PAC", row, col, it, to)] + cont)], doubled, "underlined-codes")
            for it1 in pacs:
                for it2 in pacs:
                    for rows in ((1, 15), (14, 15), (7, 8)):
                        check_program(acc, [wrap([("PAC", rows[0], 0, it1, 0)] + contents[1] + [("PAC", rows[1], 0, it2, 0)] + contents[2])], doubled, "underlined-codes")
                        check_program(acc, [wrap(FIRST[6]), wrap([("PAC", rows[0], 0, it1, 0)] + contents[3] + [("PAC", rows[1], 0, it2, 0)] + contents[0])], doubled, "underlined-codes")
    elif k == "every-indent":
        # an italic row, then a plain preamble at every indent (0, 4, ... 28; tab offsets 0-3) on the next row and on a
        # row further down: a plain preamble ends the italics whatever its column is
        for doubled in (False, True):
            for r1 in range(1, 15):
                for r2 in sorted({r1 + 1, min(15, r1 + 5)}):
                    for col in range(0, 32, 4):
                        for to in (0, 3):
                            check_program(acc, [wrap([("PAC", r1, 0, True, 0), ("C2", "A", "b"), ("PAC", r2, col, False, to), ("C2", "c", "d")])], doubled, "every-indent")
                            check_program(acc, [wrap([("PAC", r1, 0, False, 0), ("MRI",), ("C2", "A", "b"), ("PAC", r2, col, False, to), ("C2", "c", "d")])], doubled, "every-indent")
    elif k == "italic-rows":
        from mc.checks import c11

        for prog in c11.scc_programs():
            for doubled in (False, True):
                check_program(acc, prog, doubled, "italic-rows")
    elif k == "tables":
        for doubled in (False, True):
            for row in range(1, 16):
                for col in range(0, 32, 4):
                    for to in (0, 1, 2, 3):
                        check_program(acc, [wrap([("PAC", row, col, False, to), ("C2", "A", "b") if col + to < 31 else ("C1", "A")])], doubled, "table-pac")
                for to in (0, 1, 2, 3):
                    check_program(acc, [wrap([("PAC", row, 0, True, to), ("C2", "A", "b")])], doubled, "table-pac")
            for code, ch in C.BASIC.items():
                if code == 0x7F or ch == " ":
                    continue
                for pos in ("first", "middle", "last"):
                    evs = [("PAC", 15, 0, False, 0)]
                    if pos != "first":
                        evs.append(("C2", "A", "b"))
                    evs.append(("C1", ch))
                    if pos == "middle":
                        evs.append(("C2", "A", "b"))
                    check_program(acc, [wrap(evs)], doubled, "table-basic")
                # at the last column
                check_program(acc, [wrap([("PAC", 15, 28, False, 3), ("C1", ch)])], doubled, "table-basic")
            for code in C.SPECIAL:
                if C.SPECIAL[code] == " ":
                    continue
                for evs in ([("SP", code)], [("C2", "A", "b"), ("SP", code), ("C2", "A", "b")], [("C2", "A", "b"), ("SP", code)]):
                    check_program(acc, [wrap([("PAC", 15, 0, False, 0)] + evs)], doubled, "table-special")
            for page, tab in ((0x12, C.EXT_12), (0x13, C.EXT_13)):
                for code in tab:
                    for evs in ([("EXT", "E", page, code)], [("C2", "A", "b"), ("EXT", "o", page, code), ("C2", "A", "b")], [("C1", "A"), ("EXT", "a", page, code)]):
                        check_program(acc, [wrap([("PAC", 15, 0, False, 0)] + evs)], doubled, "table-extended")
    res = acc.result()
    res["states"] = 0
    res["extra"] = {"state_hashes": sorted(acc.states_set)}
    return res


def finish(agg, tier, seed):
    u = set()
    for e in agg["extra"]:
        if e:
            u.update(e["state_hashes"])
    agg["states"] = len(u)


def _t(x):
    return tuple(_t(i) for i in x) if isinstance(x, list) else x


def replay(case):
    if case.get("reuse"):
        return shared.replay(reuse_items(), reuse_eval, case["index"], between=reuse_between)
    caps = [[_t(e) for e in c] for c in case["captions"]]
    v, g, _ = compare(caps, case["doubled"])
    if v is None:
        return []
    return [{"sig": classify(kind, det, caps, case.get("klass", "single-row")), "detail": det} for kind, det in v]
