"""C20  Format detection is total, consistent and recognises pycaption's own output.

E3 (bounded-exhaustive input space):
  A. every string of <= N tokens over a 12-token alphabet of digits, newlines, braces, arrows, markers
  B. every prefix (truncation at every character) of one valid document per format
  C. every document written by every writer from a family of caption sets whose text holds no
     foreign marker: detect_format must name that writer's reader and the reader must read it.
Oracle: documented order DFXP, MicroDVD, WebVTT, SAMI, SRT, SCC; result is the first class whose own
detect() accepts (a detect() that raises is a totality violation); "" raises CaptionReadNoCaptions.
"""
import itertools

from mc.acc import Acc

ID = "C20"
LEVEL = "exploration"
RULE = (
    "A: all token strings of length<=N over TOKENS; B: all prefixes of 6 valid documents; C: all "
    "(caption set, writer) pairs of the writer-output family. distinct = distinct input strings; a case "
    "is non-trivial when the string is non-empty."
)
ASSUMPTIONS = [
    "strings outside the token alphabet / longer than the bound are not explored",
    "documented probe order taken from the property statement: DFXP, MicroDVD, WebVTT, SAMI, SRT, SCC",
]
TRUSTED = ["CPython str.splitlines / re"]
MANIFEST = {
    "technique": "bounded-exhaustive enumeration of all token strings <= N over a 12-token alphabet, all prefixes of valid documents, all writer outputs of a caption-set family; oracle = documented probe order over each reader's own detect()",
    "text": "Every string inside the bound is executed against the real detect_format; totality (no exception) and first-acceptor consistency are decided for each. Exhaustive within the alphabet/length bound, silent outside it.",
    "note": "Assumes the documented order from the property text; strings outside the alphabet and longer than the bound are not covered; reading back writer output only checks that the reader returns a non-empty caption set.",
}

TOKENS = ["1", "a", "\n", "\r\n", " ", "{1}", "-->", "WEBVTT", "<sami", "</tt>", "Scenarist_SCC V1.0", "{", "\ufeff"]
ORDER = ["DFXPReader", "MicroDVDReader", "WebVTTReader", "SAMIReader", "SRTReader", "SCCReader"]


def bounds(tier):
    return {"token_string_length": 4 if tier == "quick" else 6, "tokens": TOKENS}


VALID_DOCS = {
    "srt": "1\n00:00:01,000 --> 00:00:02,000\nHello\nworld\n\n2\n00:00:03,000 --> 00:00:04,000\nBye\n",
    "webvtt": "WEBVTT\n\n00:01.000 --> 00:02.000 align:left\nHello <i>there</i>\n\n00:03.000 --> 00:04.000\nBye\n",
    "microdvd": "{0}{0}25\n{25}{50}Hello|world\n{75}{100}Bye\n",
    "scc": "Scenarist_SCC V1.0\n\n00:00:01:00\t94ae 94ae 9420 9420 9470 9470 c8e5 ecec ef80 942f 942f\n\n00:00:03:00\t942c 942c\n",
    "sami": '<SAMI><HEAD><STYLE TYPE="text/css"><!-- .ENCC {Name: English; lang: en-US;} --></STYLE></HEAD>'
    '<BODY><SYNC start="1000"><P class="ENCC">Hello<br/>world</P></SYNC><SYNC start="2000"><P class="ENCC">&nbsp;</P></SYNC></BODY></SAMI>',
    "dfxp": '<?xml version="1.0" encoding="utf-8"?>\n<tt xml:lang="en" xmlns="http://www.w3.org/ns/ttml">\n<body><div xml:lang="en">'
    '<p begin="00:00:01.000" end="00:00:02.000">Hello<br/>world</p></div></body></tt>\n',
}

WRITER_READER = {
    "SRTWriter": "SRTReader",
    "WebVTTWriter": "WebVTTReader",
    "DFXPWriter": "DFXPReader",
    "SinglePositioningDFXPWriter": "DFXPReader",
    "LegacyDFXPWriter": "DFXPReader",
    "SAMIWriter": "SAMIReader",
    "MicroDVDWriter": "MicroDVDReader",
    "SCCWriter": "SCCReader",
}
# text tokens for writer outputs (none is another format's marker)
TEXT_TOKENS = ["Hello", "a b", "123", "1", "&", "<", "-->", "x > y", "{", "{1}", "{1}{2}", "it's", '"q"', "é", "00:00:01,000", "-", "Pneumonoultramicroscopicsilicovolcanoconiosis", "see http://example.org/a/very/long/path/without/any/blank now"]


def _cls(name):
    import pycaption
    from pycaption.dfxp import extras

    return getattr(pycaption, name, None) or getattr(extras, name)


def expected_for(s):
    for name in ORDER:
        try:
            ok = _cls(name)().detect(s)
        except Exception as e:  # noqa
            return ("detect-raises", name, type(e).__name__)
        if ok:
            return ("cls", name)
    return ("none",)


def eval_string(s):
    """returns list of (sig, detail)"""
    import pycaption

    out = []
    try:
        got = pycaption.detect_format(s)
        got_d = ("cls", got.__name__) if got is not None else ("none",)
    except Exception as e:  # noqa
        got_d = ("raises", type(e).__name__)
    if s == "":
        if got_d != ("raises", "CaptionReadNoCaptions"):
            out.append(("C20/empty-string/not-CaptionReadNoCaptions:" + ":".join(got_d), {"got": got_d}))
        return out, got_d
    exp = expected_for(s)
    if got_d[0] == "raises":
        where = exp[1] if exp[0] == "detect-raises" else "?"
        out.append((f"C20/totality/detect_format-raises:{got_d[1]}@{where}", {"got": got_d, "per_reader": exp}))
    elif exp[0] == "detect-raises":
        out.append((f"C20/totality/detect-raises:{exp[2]}@{exp[1]}", {"got": got_d, "per_reader": exp}))
    elif exp != got_d:
        out.append((f"C20/consistency/expected={exp[-1]},got={got_d[-1]}", {"expected": exp, "got": got_d}))
    return out, got_d


def _build_set(spec):
    """spec = list of captions, each a list of lines (strings)"""
    from pycaption import Caption, CaptionList, CaptionNode, CaptionSet

    caps = CaptionList()
    t = 1000000
    step = 4000000
    if spec and spec[0] == "@0":
        # the first caption starts at the very beginning of the programme, the next ones follow closely
        spec = spec[1:]
        t, step = 0, 1600000
    if spec and spec[0] == "@split":
        # every line is given as two adjacent text nodes (cut in the middle), and the caption ends with a line that has a
        # layout of its own
        from pycaption.geometry import Layout, Point, Size, UnitEnum

        spec = spec[1:]
        here = Layout(origin=Point(Size(10, UnitEnum.PERCENT), Size(10, UnitEnum.PERCENT)))
        other = Layout(origin=Point(Size(20, UnitEnum.PERCENT), Size(70, UnitEnum.PERCENT)))
        for k, lines in enumerate(spec):
            nodes = []
            for i, ln in enumerate(lines):
                if i:
                    nodes.append(CaptionNode.create_break())
                cut = ln.index("-->") + 2 if "-->" in ln else len(ln) // 2
                nodes += [CaptionNode.create_text(ln[:cut], layout_info=here), CaptionNode.create_text(ln[cut:], layout_info=here)] if 0 < cut < len(ln) else [CaptionNode.create_text(ln, layout_info=here)]
            nodes += [CaptionNode.create_break(layout_info=other), CaptionNode.create_text("elsewhere", layout_info=other)]
            caps.append(Caption(t + k * step, t + k * step + 1500000, nodes))
        return CaptionSet({"en-US": caps})
    if spec and spec[0] == "@0short":
        # the first caption lies entirely inside the first 40 ms of the programme, the others follow as usual
        spec = spec[1:]
        for k, lines in enumerate(spec):
            nodes = []
            for i, ln in enumerate(lines):
                if i:
                    nodes.append(CaptionNode.create_break())
                nodes.append(CaptionNode.create_text(ln))
            caps.append(Caption(0, 30000, nodes) if k == 0 else Caption(4000000 * k, 4000000 * k + 1500000, nodes))
        return CaptionSet({"en-US": caps})
    if spec and spec[0] == "@short":
        # captions away from time zero that last less than one MicroDVD frame, or nothing at all
        spec = spec[1:]
        for k, lines in enumerate(spec):
            nodes = []
            for i, ln in enumerate(lines):
                if i:
                    nodes.append(CaptionNode.create_break())
                nodes.append(CaptionNode.create_text(ln))
            start = 4000000 * (k + 1)
            caps.append(Caption(start, start + (0 if k % 2 == 0 else 30000), nodes))
        return CaptionSet({"en-US": caps})
    if spec and spec[0] == "@tight":
        # captions crowded into the first second (less time between them than their transmission takes)
        spec = spec[1:]
        t, step = 200000, 400000
    shifted = None
    if spec and isinstance(spec[0], str) and spec[0].startswith("@shift"):
        # the set is re-timed (adjust_caption_timing) before it is written: by so much that the first caption would begin
        # before the start of the programme ("@shift-") or just not ("@shift0": it then begins exactly at zero)
        shifted = -2000000 if spec[0] == "@shift-" else -1000000
        spec = spec[1:]
    for lines in spec:
        nodes = []
        for i, ln in enumerate(lines):
            if i:
                nodes.append(CaptionNode.create_break())
            nodes.append(CaptionNode.create_text(ln))
        caps.append(Caption(t, t + (1500000 if step > 1000000 else 300000), nodes))
        t += step
    cs = CaptionSet({"en-US": caps})
    if shifted is not None:
        cs.adjust_caption_timing(offset=shifted)
    return cs


SCC_SOURCE = "Scenarist_SCC V1.0\n\n00:00:01:02\t94ae 94ae 9420 9420 9470 9470 c8e5 ecec ef80 942f 942f\n\n00:00:03:11\t942c 942c\n\n00:00:04:07\t94ae 9420 1370 c1c2 94d0 c3c4 942f\n\n00:00:06:00\t942c\n"


def build_set(spec):
    if spec == "scc-reader-set":
        import pycaption

        return pycaption.SCCReader().read(SCC_SOURCE)  # fractional (float) caption times
    return _build_set(spec)


def eval_writer_case(spec, wname, pre=None):
    """pre: what happened to the captions before they are written - None | "printed" (repr / format_start / format_end
    were called on them) | "comma" (formatted with the SRT separator)"""
    out = []
    w = _cls(wname)()
    kw = {}
    if spec and spec[0] == "@force":
        # the DFXP writers are asked for a language the set does not have (documented: "only if available")
        spec = spec[1:]
        if "DFXP" in wname:
            kw = {"force": "xx-XX"}
    cs_in = build_set(spec)
    if pre:
        for l in cs_in.get_languages():
            for c in cs_in.get_captions(l):
                if pre == "printed":
                    repr(c)
                    c.format_start()
                    c.format_end()
                else:
                    c.format_start(msec_separator=",")
                    c.format_end(msec_separator=",")
    doc = w.write(cs_in, **kw)
    rname = WRITER_READER[wname]
    try:
        import pycaption

        got = pycaption.detect_format(doc)
        gname = got.__name__ if got else None
    except Exception as e:  # noqa
        gname = "raises:" + type(e).__name__
    if gname != rname:
        out.append((f"C20/own-output/{wname}-detected-as:{gname}" + (f"/captions-{pre}-before" if pre else ""), {"doc": doc[:300], "expected": rname}))
    else:
        try:
            cs = _cls(rname)().read(doc)
            n = sum(len(cs.get_captions(l)) for l in cs.get_languages())
            if n == 0:
                out.append((f"C20/own-output/{wname}-reads-empty" + (f"/captions-{pre}-before" if pre else ""), {"doc": doc[:300]}))
        except Exception as e:  # noqa
            if wname == "SCCWriter" and spec and spec[0] == "@tight" and type(e).__name__ == "CaptionReadTimingError":
                # cues crowded closer than their transmission time cannot all be shown: a caption displayed for less
                # than 0.05 s is rejected with the documented timing error (C06) - not a failure to read SCC as SCC
                return out, gname + "/documented-timing-rejection"
            out.append((f"C20/own-output/{wname}-reader-raises:{type(e).__name__}" + (f"/captions-{pre}-before" if pre else ""), {"doc": doc[:300], "err": str(e)[:200]}))
    return out, gname


def writer_specs(tier):
    specs = ["scc-reader-set"]
    for t in TEXT_TOKENS:
        specs.append([[t]])
    for t in TEXT_TOKENS[:6]:
        specs.append(["@0", [t]])
        specs.append(["@0", [t], ["two rows", t]])
        specs.append(["@0", ["Hi!"], [t, "second row"], ["third"]])
        specs.append(["@tight", ["Hi!"], [t, "second row of the caption"], ["third"]])
    for t in TEXT_TOKENS[:4]:
        specs.append(["@short", [t], ["Bang!"], ["1984"]])
        specs.append([[t, " ", "42"]])       # a line of one blank between two lines
        specs.append([["Total:", "", t]])    # an empty text node between two breaks
    for t in TEXT_TOKENS[:3]:
        for pre in ("@shift-", "@shift0"):
            specs.append([pre, [t], ["later", "two rows"], ["last"]])
    for t in TEXT_TOKENS[:3]:
        specs.append(["@force", [t], ["second"]])
        specs.append(["@0short", [t], ["second"]])
    specs.append(["@0short", ["23.976"], ["second"]])
    for t in ("x --> y", "a -- b", "Hello there", "1 --> 2 --> 3"):
        specs.append(["@split", [t], ["two", t]])
    # captions of one to nine rows
    for n in range(3, 10):
        specs.append([[f"row {k:02d} of a tall caption" for k in range(n)]])
        specs.append(["@0", ["Hi!"], [f"row {k} is shorter" for k in range(n)]])
    pairs = TEXT_TOKENS if tier == "thorough" else TEXT_TOKENS[:9]
    for a in pairs:
        for b in pairs:
            specs.append([[a, b]])
            specs.append([[a], [b]])
    return specs


def shards(tier, seed):
    n = 4 if tier == "quick" else 6
    if tier == "quick":
        sh = [{"k": "tok", "first": [i], "n": n} for i in range(len(TOKENS))]
    else:
        sh = [{"k": "tok", "first": [i, j], "n": n} for i in range(len(TOKENS)) for j in range(len(TOKENS))]
        sh += [{"k": "tok", "first": [i], "n": 1} for i in range(len(TOKENS))]
    sh.append({"k": "misc"})
    for w in WRITER_READER:
        sh.append({"k": "writer", "w": w, "tier": tier})
    return sh


def run_shard(d):
    acc = Acc()
    if d["k"] == "tok":
        first = "".join(TOKENS[i] for i in d["first"])
        for ln in range(0, d["n"] - len(d["first"]) + 1):
            for rest in itertools.product(TOKENS, repeat=ln):
                s = first + "".join(rest)
                v, got = eval_string(s)
                acc.case(("tok", d["first"], rest), True, got, {"string": s, "result": got})
                for sig, det in v:
                    acc.violation(sig, {"k": "string", "s": s}, det)
    elif d["k"] == "misc":
        v, got = eval_string("")
        acc.case("empty", False, got, {"string": "", "result": got})
        for sig, det in v:
            acc.violation(sig, {"k": "string", "s": ""}, det)
        for fmt, doc in VALID_DOCS.items():
            for i in range(1, len(doc) + 1):
                s = doc[:i]
                v, got = eval_string(s)
                acc.case(("prefix", fmt, i), True, got)
                for sig, det in v:
                    acc.violation(sig, {"k": "string", "s": s}, det)
            # the full document must be detected as its own format and read
            import pycaption

            want = {"srt": "SRTReader", "webvtt": "WebVTTReader", "microdvd": "MicroDVDReader", "scc": "SCCReader", "sami": "SAMIReader", "dfxp": "DFXPReader"}[fmt]
            got = pycaption.detect_format(doc)
            if got is None or got.__name__ != want:
                acc.violation(f"C20/valid-doc/{fmt}-detected-as:{got.__name__ if got else None}", {"k": "string", "s": doc}, None)
            acc.count("prefix_docs")
    else:
        for si, spec in enumerate(writer_specs(d["tier"])):
            for pre in (None, "printed", "comma"):
                if pre and si % 5 and d["tier"] == "quick":
                    continue
                v, got = eval_writer_case(spec, d["w"], pre)
                acc.case(("w", d["w"], spec, pre), True, got, {"writer": d["w"], "captions": spec, "captions_formatted_before": pre})
                for sig, det in v:
                    acc.violation(sig, {"k": "writer", "w": d["w"], "spec": spec, "pre": pre}, det)
    return acc.result()


def replay(case):
    if case["k"] == "string":
        v, _ = eval_string(case["s"])
    else:
        v, _ = eval_writer_case(case["spec"], case["w"], case.get("pre"))
    return [{"sig": s, "detail": d} for s, d in v]
