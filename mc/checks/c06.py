"""C06  SCC captions appear and disappear at the frames their commands are sent.

Reference-model checking of the timing state machine: pop-on programs are generated from a timing-shape grammar
(3 captions; per boundary: no erase / erase inline before the next End-Of-Caption / erase on its own line g frames
before it, g = 1..8; final caption cleared, never cleared, or flashed for 1..3 frames), the transmission is simulated
word by word on an exact-arithmetic frame clock (the model), and the real SCCReader's start/end are compared.
"""
import itertools
from fractions import Fraction

from mc import shared
from mc.acc import Acc, h8
from mc.ref import cea608 as C

ID = "C06"
LEVEL = "model_checking"
RULE = (
    "programs = base timecode x drop/non-drop x single/doubled codes x offset x filler-word count x boundary shape^2 x final shape x {one row, two non-adjacent rows per caption} "
    "shape; model = exact-arithmetic frame clock + displayed-cue state machine; states = distinct (clock-independent) model "
    "states, transitions = words fed, traces = programs replayed on the real reader. non-trivial = every program (3 captions)"
)
ASSUMPTIONS = [
    "frame = 1001/30000 s for the five-frame rule (pycaption's constant); a gap within one timecode-frame of exactly five frames is a don't-care",
    "offsets that floor a cue's end to zero are outside the domain",
    "implementation times are floats: compared with the exact value within 0.01 microsecond",
]
TRUSTED = ["fractions.Fraction", "mc.ref.cea608 encoder"]
MANIFEST = {
    "technique": "reference-model checking: exhaustive enumeration of timing-shape programs, exact-arithmetic frame-clock model in lock-step, every trace replayed on the real SCCReader",
    "text": "Each generated program is transmitted word by word to a Fraction-based frame clock and cue state machine; the real reader's (start, end) list, the 4-second default, the five-frame closing rule and the 0.05 s rejection are compared with it.",
    "note": "Bounded shapes (3 captions, gaps 1..8 frames, 6 base timecodes, 4 offsets).",
}

FRAME = Fraction(1001, 30000) * 1000000  # microseconds
BASES = [(0, 0, 1, 0), (0, 0, 59, 29), (0, 59, 59, 29), (1, 0, 0, 0), (23, 59, 50, 15), (0, 0, 0, 0)]
FILLERS = [0, 1, 5, 12]
# "split": doubled streams only - the line ends between the two copies of End-Of-Caption (the second copy opens the next
# line, one frame later; a decoder still counts the pair once)
BOUNDARY = ["none", "inline"] + [f"own{g}" for g in range(1, 9)] + ["split"]
FINAL = ["cleared", "never", "flash1", "flash2", "flash3"]
ITALIC_B = ("none", "inline", "own3", "own6")  # boundary shapes used with captions written in italics


def bounds(tier):
    return {"bases": len(BASES), "fillers": FILLERS, "boundary_shapes": len(BOUNDARY), "final_shapes": len(FINAL), "captions": 3}


def tc(frames_total, sep):
    """nominal 30 fps frame count -> HH:MM:SS<sep>FF"""
    ff = frames_total % 30
    s = frames_total // 30
    return f"{s // 3600:02d}:{(s // 60) % 60:02d}:{s % 60:02d}{sep}{ff:02d}"


def build(base, sep, doubled, fillers, b1, b2, final, tworows=False):
    """-> list of lines: (frames_total, [words])"""
    d = 2 if doubled else 1
    t0 = ((base[0] * 60 + base[1]) * 60 + base[2]) * 30 + base[3]
    lines = []
    cur = t0
    bnds = [None, b1, b2]
    texts = ["Ab", "bA", "AA"]
    for i in range(3):
        load = [C.ENM] * d + [C.RCL] * d
        if tworows == "long":
            # five further full rows at the top of the screen: the line carries about a hundred code words, so the
            # word counter of late words passes 99 (the rows come out as a second caption with the same times)
            for r in (1, 2, 3, 4, 5):
                load += [C.pac(r, 0)] * d + C.text_words("Up") + [C.chars("b", "b")] * 14
        elif tworows == "italic":
            pass  # one row, written in italics (an italic preamble, and a mid-row italics code inside the text)
        elif tworows:
            # a second, non-adjacent row: the caption comes out as two captions sharing its times
            load += [C.pac(1 + i, 0)] * d + C.text_words("Up")
        if tworows == "italic":
            load += [C.pac(15 - i, 0, i != 1)] * d + C.text_words(texts[i]) + ([C.MR_ITALIC] * d if i == 1 else []) + [C.chars("b", "b")] * (fillers[i] + (i == 1))
        else:
            load += [C.pac(15 - i, 0)] * d + C.text_words(texts[i]) + [C.chars("b", "b")] * fillers[i]
        b = bnds[i]
        if b is None or b == "none":
            lines.append((cur, load + [C.EOC] * d))
            cur += 90 + len(load) + (60 if tworows == "long" else 0)
        elif b == "inline":
            lines.append((cur, load + [C.EDM] * d + [C.EOC] * d))
            cur += 90 + len(load) + (60 if tworows == "long" else 0)
        elif b == "split":
            lines.append((cur, load + [C.EOC]))
            lines.append((cur + len(load) + 1, [C.EOC]))
            cur += 90 + len(load)
        else:
            g = int(b[3:])
            lines.append((cur, load))
            cur += len(load) + 40
            lines.append((cur, [C.EDM] * d))
            lines.append((cur + g, [C.EOC] * d))
            cur += g + 90
    if final == "cleared":
        lines.append((cur, [C.EDM] * d))
    elif final.startswith("flash"):
        n = int(final[5:])
        # rewrite: EDM n frames after the last EOC word of the last line
        last_t, last_w = lines[-1]
        lines.append((last_t + len(last_w) - 1 + n, [C.EDM] * d))
    return lines


def sep_for(sep, line_index):
    """sep is ':' / ';' or a longer string cycled over the lines (a stream that mixes both notations)"""
    return sep[line_index % len(sep)]


def simulate(lines, sep, offset_s, copies=1):
    """Model: exact transmission clock and displayed-cue state machine. -> (cues [(start, end)], error_expected, dontcare, states)"""
    off = Fraction(str(offset_s)) * 1000000
    cues = []
    current = None
    loaded = False
    states = set()
    trans = 0
    dec = C.Decoder()
    for li, (t, words) in enumerate(lines):
        k = Fraction(1001, 1000) if sep_for(sep, li) == ":" else Fraction(1)
        for idx, w in enumerate(words):
            now = (Fraction(t + idx, 30)) * k * 1000000 - off
            if now < 0:
                now = Fraction(0)
            r = dec.feed(w)
            trans += 1
            if r != "dup":
                b2 = int(w[2:], 16) & 0x7F
                if w == C.EOC:
                    if current is not None:
                        cues.append((current, now))
                        current = None
                    if any(any(not ch.isspace() for ch, _ in cells.values()) for cells in dec.disp.values()):
                        current = now
                elif w == C.EDM:
                    if current is not None:
                        cues.append((current, now))
                        current = None
            states.add(h8(repr((dec.key(), current is not None, idx))))
    if current is not None:
        cues.append((current, None))
    dontcare = False
    out = []
    for i, (s, e) in enumerate(cues):
        if e is not None and i + 1 < len(cues):
            gap = cues[i + 1][0] - e
            if 0 <= gap < 5 * FRAME - 2:
                e = cues[i + 1][0]
            elif gap <= 5 * FRAME + 2:
                dontcare = True  # exactly five frames (to the microsecond): neither "shorter than five frames" nor clearly longer
        out.append((s, e))
    if any(e == 0 for s, e in out if e is not None):
        dontcare = True  # an end floored to zero is read as "never ended"
    err = any(e is not None and 0 < e - s < 50000 for s, e in out)
    out = [(s, e if e is not None else s + 4000000) for s, e in out]
    out = [c for c in out for _ in range(copies)]
    return out, err, dontcare, states, trans


def doc_of(lines, sep, spacing=0):
    """spacing: 0 = one blank between code words; 1 = two blanks in every third gap; 2 = a trailing blank on every line
    (blanks are not code words: they take no frame)"""
    out = ["Scenarist_SCC V1.0", ""]
    for li, (t, words) in enumerate(lines):
        if spacing == 1:
            body = "".join(w + ("  " if k % 3 == 1 else " ") for k, w in enumerate(words)).rstrip(" ")
        else:
            body = " ".join(words) + (" " if spacing == 2 else "")
        out.append(tc(t, sep_for(sep, li)) + "\t" + body)
        out.append("")
    return ("\r\n" if spacing == 3 else "\n").join(out)  # spacing 3: CR LF line ends


def evaluate(case):
    from pycaption import SCCReader
    from pycaption.exceptions import CaptionReadTimingError

    base, sep, doubled, fillers, b1, b2, final, offset = case[:8]
    tworows = (case[8] if case[8] in ("long", "italic") else bool(case[8])) if len(case) > 8 else False
    spacing = case[9] if len(case) > 9 else 0
    lines = build(base, sep, doubled, fillers, b1, b2, final, tworows)
    exp, err, dontcare, states, trans = simulate(lines, sep, offset, 2 if tworows and tworows != "italic" else 1)
    if dontcare:
        return None, states, trans, "dontcare"
    doc = doc_of(lines, sep, spacing)
    v = []
    try:
        cs = shared.obj(SCCReader).read(doc, offset=offset)
        got = [(c.start, c.end) for c in cs.get_captions("en-US")]
        raised = None
    except CaptionReadTimingError as e:
        raised = "CaptionReadTimingError"
        got = None
    except Exception as e:  # noqa
        return [(f"C06/raises:{type(e).__name__}", {"err": str(e)[:200], "doc": doc})], states, trans, "raises"
    klass = f"{ {';': 'drop', ':': 'nondrop'}.get(sep, 'mixed') }/{'doubled' if doubled else 'single'}/offset{'0' if not offset else ('+' if offset == int(offset) else 'fractional')}"
    if err:
        if raised is None:
            v.append((f"C06/flash-cue-not-rejected/{final}", {"got": got, "want": "CaptionReadTimingError", "doc": doc}))
        return v, states, trans, "timing-error"
    if raised:
        v.append((f"C06/unexpected-timing-error/{b1}-{b2}-{final}", {"doc": doc, "expected": [[float(s), float(e)] for s, e in exp]}))
        return v, states, trans, "raised"
    if len(got) != len(exp):
        v.append((f"C06/cue-count/{b1}-{b2}-{final}", {"got": got, "want": [[float(s), float(e)] for s, e in exp], "doc": doc}))
        return v, states, trans, "count"
    tol = Fraction(1, 100)
    for i, ((gs, ge), (ws, we)) in enumerate(zip(got, exp)):
        if abs(Fraction(gs) - ws) > tol:
            v.append((f"C06/start/{klass}", {"cue": i, "got": gs, "want": float(ws), "doc": doc}))
            break
        if abs(Fraction(ge) - we) > tol:
            shape = [b1, b2, final][i] if i < 2 else final
            v.append((f"C06/end/{klass}/{shape if i < 2 else final}", {"cue": i, "got": ge, "want": float(we), "doc": doc}))
            break
        if not gs <= ge:
            v.append(("C06/start-after-end", {"cue": i, "got": [gs, ge], "doc": doc}))
    for i in range(len(got) - 1):
        if got[i][0] > got[i + 1][0]:
            v.append(("C06/not-in-transmission-order", {"got": got, "doc": doc}))
            break
    return v, states, trans, tuple((float(s), float(e)) for s, e in exp)


def offsets_for(base):
    t0 = (base[0] * 60 + base[1]) * 60 + base[2]
    return sorted({0, 1, max(0, t0 - 1), t0 + 2}) + [0.5]


def reuse_items():
    items = []
    i = 0
    for bi, base in enumerate(BASES):
        for sep in (":", ";"):
            for b1 in BOUNDARY[::3]:
                for final in FINAL:
                    offs = offsets_for(base)
                    items.append((base, sep, bool(i % 2), (i % 3, (i // 3) % 5, 12 - i % 13), b1, BOUNDARY[(i * 7) % len(BOUNDARY)], final, offs[i % len(offs)], bool(i % 4 == 0)))
                    i += 1
    return items


def reuse_between():
    """the shared reader is given documents it rejects (a 40-column row, a mangled timecode) between judged reads"""
    from pycaption import SCCReader

    from mc.checks import c16

    for doc in (c16.REJECTED_DOC, c16.MANGLED_DOC):
        try:
            shared.obj(SCCReader).read(doc)
        except Exception:  # noqa
            pass


def reuse_eval(item):
    v, _s, _t, outcome = evaluate(item)
    return (v or []), outcome


def shards(tier, seed):
    sh = [{"reuse": True}]
    for bi in range(len(BASES)):
        for sep in (":", ";"):
            for doubled in (False, True):
                sh.append({"base": bi, "sep": sep, "doubled": doubled, "tier": tier})
        # a stream that switches between the two timecode notations from line to line (only in the first minutes,
        # where the 0.1 % difference between the notations cannot reorder lines that are seconds apart)
        if BASES[bi][0] == 0 and BASES[bi][1] == 0:
            sh.append({"base": bi, "sep": ":;", "doubled": bool(bi % 2), "tier": tier, "mixed": True})
            sh.append({"base": bi, "sep": ";:;", "doubled": not bool(bi % 2), "tier": tier, "mixed": True})
    return sh


def run_shard(d):
    acc = Acc()
    if d.get("reuse"):
        shared.run(acc, reuse_items(), reuse_eval, between=reuse_between, sample=lambda it: {"reuse_run_step": list(it)})
        res = acc.result()
        res["extra"] = {"state_hashes": []}
        return res
    base = BASES[d["base"]]
    allstates = set()
    fill_sets = [(0, 0, 0), (1, 5, 12), (12, 0, 1), (5, 1, 0)] if d["tier"] == "quick" else list(itertools.product(FILLERS, repeat=3))[::3]
    if d.get("mixed"):
        fill_sets = fill_sets[:2]
    for offset in offsets_for(base):
        for fillers in (fill_sets if offset == int(offset) else fill_sets[:1]):
            # mixed notations: only shapes whose lines are seconds apart (the notations differ by 0.1 %, which would
            # reorder lines that are a frame or two apart - not a well-formed stream)
            bset = BOUNDARY if not d.get("mixed") else ["none", "inline"]
            fset = FINAL if not d.get("mixed") else ["cleared", "never"]
            for b1 in bset:
                for b2 in bset:
                    if "split" in (b1, b2) and not d["doubled"]:
                        continue
                    for final in fset:
                      for tworows, spacing in (((False, 0), (True, 0)) + ((("long", 0),) if fillers == fill_sets[0] and b1 in ("none", "inline") and b2 in ("none", "inline") else ()) + ((("italic", 0),) if fillers == fill_sets[0] and b1 in ITALIC_B and b2 in ITALIC_B else ()) + (((False, 1), (False, 2), (False, 3)) if fillers == fill_sets[1] and offset == offsets_for(base)[0] else ()) if fillers in fill_sets[:2] else ((False, 0),)):
                        case = (base, d["sep"], d["doubled"], fillers, b1, b2, final, offset, tworows, spacing)
                        v, states, trans, outcome = evaluate(case)
                        allstates.update(states)
                        acc.transitions += trans
                        if v is None:
                            acc.count("dont_care_programs")
                            continue
                        acc.traces += 1
                        acc.case(case, True, outcome, {"base_timecode": base, "separator": d["sep"], "doubled": d["doubled"], "filler_words": fillers, "boundaries": [b1, b2], "final": final, "offset_s": offset, "two_non_adjacent_rows_per_caption": tworows, "blank_spacing_variant": spacing})
                        for sig, det in v:
                            acc.violation(sig + ({"long": "/hundred-word-lines", "italic": "/italic-text"}.get(tworows, "/two-rows") if tworows else "") + (("/crlf-line-ends" if spacing == 3 else "/extra-blanks-between-code-words") if spacing else ""), {"case": list(case)}, det)
    res = acc.result()
    res["extra"] = {"state_hashes": sorted(allstates)}
    return res


def finish(agg, tier, seed):
    u = set()
    for e in agg["extra"]:
        if e:
            u.update(e["state_hashes"])
    agg["states"] = len(u)


def replay(case):
    if case.get("reuse"):
        return shared.replay(reuse_items(), reuse_eval, case["index"], between=reuse_between)
    c = case["case"]
    tw = (c[8] if c[8] in ("long", "italic") else bool(c[8])) if len(c) > 8 else False
    sp = c[9] if len(c) > 9 else 0
    c = (tuple(c[0]), c[1], c[2], tuple(c[3]), c[4], c[5], c[6], c[7], tw, sp)
    v, _, _, _ = evaluate(c)
    return [{"sig": s + ({"long": "/hundred-word-lines", "italic": "/italic-text"}.get(tw, "/two-rows") if tw else "") + (("/crlf-line-ends" if sp == 3 else "/extra-blanks-between-code-words") if sp else ""), "detail": d} for s, d in (v or [])]
