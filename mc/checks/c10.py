"""C10  Reading is a deterministic, isolated function of document and options.

E2 / explicit-state search over histories of read / edit / write operations in one process: shared reader instances
(one per reader class), a document pool per format (multi-language SAMI and DFXP, SCC pop-on / roll-up / paint-on, documents
that make the reader raise), edits of earlier results (add_style, caption.style, a style dict, append a caption, node
text, set_layout_info) and writes of earlier results. Pruned on the canonical dump of (reader instances, process-global
pycaption state, results so far). After every operation:
  (1) a read's canonical result (languages in order, times, nodes, styles, layouts) equals the result of the same read
      in a pristine interpreter (hash seed 0);
  (2) every earlier result not targeted by the operation is unchanged (isolation);
  (3) the newest result shares no mutable container with an earlier result or with process-global state (a shared
      object is actually mutated through the new result to demonstrate the interference);
  (4) the process-global state is re-digested; if the history changed it, every read of the menu is probed in the
      polluted process against the pristine results (a change that alters no read is counted, not reported).
Repeated under several PYTHONHASHSEED values.
"""
import json
import os
import subprocess
import sys

from mc.acc import Acc, h8
from mc.ref import docs

ID = "C10"
LEVEL = "model_checking"
RULE = (
    "BFS over histories of operations {read(format, document, options) on shared reader instances, edit(k, kind) on the k-th result, "
    "write(writer, k)} up to depth D; states = distinct canonical dumps of (reader instances, global state, results); transitions = "
    "operations executed; every read transition is compared with a pristine read in a fresh interpreter. non-trivial = history of length >= 2"
)
ASSUMPTIONS = [
    "pruning on the canonical dump is sound: it covers reader instances, all mutable state reachable from the loaded pycaption modules and every result still alive",
    "finite document pool and edit menu; hash seeds sampled from a fixed list",
]
TRUSTED = ["mc.canon reflective dump", "subprocess isolation for pristine references"]
MANIFEST = {
    "technique": "explicit-state BFS over read/edit/write histories on shared reader instances (state = canonical dump of readers + process globals + live results), differential oracle against pristine reads in fresh interpreters, repeated under several hash seeds",
    "text": "All operation sequences up to the depth bound are executed on the real readers; each read is compared with the same read done alone in a fresh process, earlier results are re-snapshotted after every later operation, and the process-global state is compared after every step.",
    "note": "Depth 3; the quick tier uses the reduced menu of World.enabled_reduced at levels 2-3 (full menu in the thorough tier); finite pools; hash seeds sampled.",
}
VERIF = os.path.dirname(os.path.dirname(os.path.dirname(os.path.abspath(__file__))))
SEEDS = {"quick": ["0", "7"], "thorough": ["0", "1", "2", "3", "7", "11", "19", "42"]}
# single-read histories of every read of the menu are repeated under many more hash seeds (cheap: one process per seed)
SWEEP = {"quick": [str(i) for i in range(1, 17)], "thorough": [str(i) for i in range(1, 129)]}


def bounds(tier):
    return {"depth": 3, "hash_seeds": SEEDS[tier], "hash_seeds_for_single_reads": len(SWEEP[tier]), "documents": {k: len(v) for k, v in doc_pool().items()}}


_pool = None


def doc_pool():
    global _pool
    if _pool is not None:
        return _pool
    from mc.checks import c05, c16
    from mc.ref import cea608 as C

    p = {}
    p["srt"] = [
        docs.srt_doc([("00:00:01,000", "00:00:02,000", ["Hello", "world"]), ("00:00:03,000", "00:00:04,000", ["Bye"])]),
        docs.srt_doc([("00:00:05,000", "00:00:06,000", ["Other"])]),
    ]
    p["webvtt"] = [
        docs.vtt_doc([("00:01.000", "00:02.000", "align:left", ["<v Bob>Hi &amp; bye"]), ("00:03.000", "00:04.000", "", ["two", "lines"])]),
        docs.vtt_doc([("00:05.000", "00:06.000", "", ["later"])]),
    ]
    p["microdvd"] = [docs.microdvd_doc([(25, 50, "Hello|world"), (75, 100, "Bye")]), docs.microdvd_doc([(10, 20, "x")], fps="23.976")]
    head = '<styling><style xml:id="s1" tts:color="red" tts:fontStyle="italic"/><style xml:id="s2" tts:textAlign="center"/><style xml:id="s3" tts:fontWeight="bold"/></styling><layout><region xml:id="r1" tts:origin="10% 20%" tts:extent="30% 40%"/><region xml:id="r2" tts:textAlign="center" tts:displayAlign="before"/></layout>'
    p["dfxp"] = [
        docs.dfxp_doc([("en", [('begin="1s" end="2s" region="r1" style="s1 s2 s3"', 'a<br/><span region="r2" tts:fontStyle="italic" style="s3 s1">b</span>'), ('begin="3s" dur="1s" region="r2"', "c &amp; d"), ('begin="5s" end="6s"', '<span region="r1">f</span> <span region="r2">g</span>')] + [(f'begin="{7 + k}s" end="{7 + k}.5s"', f't{k} <span region="{rid}">in {rid}</span><br/><span>more</span>') for k, rid in enumerate(["r1", "r2", "top", "low", "a", "bb", "left", "zone9"])]), ("fr", [('begin="1s" end="2s"', "e")])], head=head.replace("</layout>", "".join(f'<region xml:id="{rid}" tts:origin="{5 + 3 * k}% 30%"/>' for k, rid in enumerate(["top", "low", "a", "bb", "left", "zone9"])) + "</layout>")),
        docs.dfxp_doc([("de", [('begin="5s" end="6s"', "plain")])]),
        docs.dfxp_doc([("en", [('begin="1s" end="2s"', "ok"), ('end="2s"', "no begin: reader raises")])]),
        # two documents with textually identical <region> elements whose referenced style differs, and a root extent
        docs.dfxp_doc([("en", [('begin="1s" end="2s" region="ra"', "same region markup")])], head='<styling><style xml:id="rs" tts:origin="10% 20%" tts:extent="30% 40%"/></styling><layout><region xml:id="ra" style="rs"/></layout>'),
        docs.dfxp_doc([("en", [('begin="1s" end="2s" region="ra"', "same region markup"), ('begin="3s" end="4s"', "no region")])], head='<styling><style xml:id="rs" tts:origin="50% 60%" tts:textAlign="right"/></styling><layout><region xml:id="ra" style="rs"/></layout>', tt_attrs=' tts:extent="640px 480px"'),
    ]
    p["sami"] = [
        docs.sami_doc([(1000, [("en-US", "one"), ("fr-FR", "un")]), (2000, [("en-US", "&nbsp;")]), (2500, [("fr-FR", "deux<br/><i>d</i>")]), (3000, [("en-US", "three")])], ["en-US", "fr-FR"], class_css={"en-US": "margin-left: 2%; text-align: center; "}),
        docs.sami_doc([(1000, [("de-DE", "eins")]), (1500, [("es-ES", "uno"), ("en-US", "one")]), (2000, [("de-DE", "zwei")])], ["de-DE", "es-ES", "en-US"]).replace('<P class="DECC">zwei</P>', '<P class="DECC" style="text-align:center;">zwei<br/>drei</P>'),
        "<SAMI><BODY><SYNC><P class=ENCC>no start: reader raises</P></SYNC></BODY></SAMI>",
        # a style sheet the reader rejects half-way (invalid colour after valid rules): every read must reject it again
        docs.sami_doc([(1000, [("en-US", "one")]), (2000, [("en-US", "&nbsp;")])], ["en-US"], extra_css=".A { color: red; }\n.B { color: ffeedd; }\n.C { text-align: right; }"),
        # no <STYLE> block at all
        "<SAMI><BODY><SYNC start=1000><P>plain</P></SYNC><SYNC start=2000><P>&nbsp;</P></SYNC><SYNC start=3000><P>again</P></SYNC></BODY></SAMI>",
        # two classes declare the same language with different layouts (which one wins must not depend on hashing)
        docs.sami_doc([(1000, [("en-US", "one")]), (2000, [("en-US", "two")])], ["en-US"], class_css={"en-US": "margin-left: 2%; text-align: center; "}, extra_css=".ENALT { Name: alt; lang: en-US; margin-left: 9%; text-align: right; }\n.ENTHIRD { Name: third; lang: en-US; margin-top: 7%; text-align: left; }"),
    ]
    p["scc"] = [
        c05.program_doc([c05.wrap(c05.FIRST[3]), c05.wrap(c05.FIRST[7])], True),
        c16.build([("roll", 2, ["AaAa", "Bb Bd", "C"], 0, True)], 2, ":", 30)[0],
        c16.build([("paint", [[(14, "Pa"), (15, "Pb")], [(1, "Q")]])], 1, ";", 1)[0],
        "Scenarist_SCC V1.0\n\n00:00:01:00\t94ae 9420 9470 " + " ".join([C.chars("x", "x")] * 18) + " 942f\n\n00:00:05:00\t942c\n",
        # text before any preamble address code (falls back to the reader's default position), doubled
        # cue-starting command, extended character, and a final caption that is never cleared
        "Scenarist_SCC V1.0\n\n00:00:01:00\t9420 9420 94ae 94ae " + C.chars("n", "o") + " " + C.chars("E") + " " + C.extended(0x12, 0x21) + " " + C.extended(0x12, 0x21) + " 942f 942f\n",
        # roll-up stream cut off without a final carriage return
        "Scenarist_SCC V1.0\n\n00:00:01:00\t9425 94ad 1370 " + C.chars("r", "u") + "\n\n00:00:02:00\t94ad 1370 " + C.chars("l", "a") + "\n",
        # italic words closed by a mid-row code that is directly followed by punctuation (twice in one caption, and again in
        # the next one): the blank of the mid-row code is handled specially there
        "Scenarist_SCC V1.0\n\n00:00:01:00\t94ae 9420 9470 " + " ".join([C.MR_ITALIC] + C.text_words("good") + [C.MR_PLAIN] + C.text_words(". Then") + [C.MR_ITALIC] + C.text_words("fine") + [C.MR_PLAIN] + C.text_words("!"))
        + " 942f\n\n00:00:05:00\t94ae 9420 9470 " + " ".join([C.MR_ITALIC] + C.text_words("last") + [C.MR_PLAIN] + C.text_words(", end")) + " 942f\n\n00:00:09:00\t942c\n",
    ]
    _pool = p
    return p


READ_OPTS = {
    "srt": [{}, {"read": {"lang": "fr"}}],
    "webvtt": [{}, {"init": {"time_shift_milliseconds": 1000, "ignore_timing_errors": False}}],
    "microdvd": [{}],
    "dfxp": [{}],
    "sami": [{}],
    "scc": [{}, {"read": {"offset": 1, "simulate_roll_up": True}}],
}
REP_EXTRA = {("sami", 4)}  # further documents after which the quick tier also explores edits / writes (style-less SAMI)
EDITS = ["add_style", "caption_style", "style_dict", "append_caption", "node_text", "set_layout", "style_node_content", "layout_inplace"]
WRITES = ["DFXPWriter", "SAMIWriter", "WebVTTWriter"]


def reader_cls(fmt):
    import pycaption

    return {"srt": pycaption.SRTReader, "webvtt": pycaption.WebVTTReader, "microdvd": pycaption.MicroDVDReader, "dfxp": pycaption.DFXPReader, "sami": pycaption.SAMIReader, "scc": pycaption.SCCReader}[fmt]


def snapshot(cs):
    from mc import canon

    langs = cs.get_languages()
    return canon.digest(("langs", langs, [(l, canon.dump(cs.get_captions(l))) for l in langs], ("styles", canon.dump(cs.get_styles())), ("layout", canon.dump(cs.layout_info))))


def do_read(reader, fmt, di, opt):
    try:
        cs = reader.read(doc_pool()[fmt][di], **opt.get("read", {}))
    except Exception as e:  # noqa
        return ("raises", type(e).__name__), None
    return ("ok", snapshot(cs)), cs


def one_read(fmt, di, opt):
    r = reader_cls(fmt)(**opt.get("init", {}))
    res, cs = do_read(r, fmt, di, opt)
    return list(res) + [repr([(l, [(c.start, c.end, c.get_text()) for c in cs.get_captions(l)]) for l in cs.get_languages()])[:600] if cs is not None else None]


_pristine_cache = {}


def pristine(fmt, di, opt):
    key = (fmt, di, json.dumps(opt, sort_keys=True))
    if key not in _pristine_cache:
        env = dict(os.environ)
        env["PYTHONHASHSEED"] = "0"
        code = "import sys,json,warnings; warnings.filterwarnings('ignore'); sys.path.insert(0,%r); from mc.checks import c10; print(json.dumps(c10.one_read(*json.loads(sys.argv[1]))))" % VERIF
        r = subprocess.run([sys.executable, "-B", "-c", code, json.dumps([fmt, di, opt])], capture_output=True, text=True, env=env)
        try:
            _pristine_cache[key] = json.loads(r.stdout.strip().splitlines()[-1])
        except Exception:  # noqa
            raise RuntimeError("pristine run failed: " + (r.stdout + r.stderr)[-800:])
    return _pristine_cache[key]


def do_edit(cs, kind):
    from pycaption import Caption, CaptionNode
    from pycaption.geometry import Layout, Point, Size, UnitEnum

    lang = cs.get_languages()[0]
    caps = cs.get_captions(lang)
    if kind == "add_style":
        cs.add_style("injected", {"color": "red"})
    elif kind == "caption_style":
        caps[0].style["injected"] = True
    elif kind == "style_dict":
        cs.get_style("nosuchstyle")["x"] = 1
        st = cs.get_styles()
        if st:
            st[0][1]["injected"] = "y"
    elif kind == "append_caption":
        caps.append(Caption(90000000, 91000000, [CaptionNode.create_text("appended")]))
    elif kind == "node_text":
        for n in caps[0].nodes:
            if n.type_ == 1:
                n.content += "!"
                break
    elif kind == "style_node_content":
        for c in caps:
            for n in c.nodes:
                if n.type_ == 2 and isinstance(n.content, dict):
                    n.content["injected"] = True
                    return
    elif kind == "layout_inplace":
        # the geometry objects of a caption are ordinary attribute-carrying objects: user code can change them in place
        from pycaption.geometry import HorizontalAlignmentEnum

        for c in caps:
            for holder in [c] + list(c.nodes):
                L = getattr(holder, "layout_info", None)
                done = False
                if L is not None and L.alignment is not None:
                    L.alignment.horizontal = HorizontalAlignmentEnum.RIGHT if L.alignment.horizontal != HorizontalAlignmentEnum.RIGHT else HorizontalAlignmentEnum.LEFT
                    done = True
                if L is not None and L.origin is not None:
                    L.origin.x.value = L.origin.x.value + 1
                    done = True
                if L is not None and L.padding is not None and L.padding.start is not None:
                    L.padding.start.value = L.padding.start.value + 1
                    done = True
                if done:
                    return
    elif kind == "set_layout":
        cs.set_layout_info(lang, Layout(origin=Point(Size(1, UnitEnum.PERCENT), Size(2, UnitEnum.PERCENT))))


def do_write(cs, wname):
    import pycaption

    try:
        getattr(pycaption, wname)().write(cs)
    except Exception:  # noqa
        pass


class World:
    """fresh objects on which a history is replayed"""

    def __init__(self):
        self.readers = {}
        self.results = []  # (fmt, di, opt, cs)

    def reader(self, fmt, opt):
        key = (fmt, json.dumps(opt.get("init", {}), sort_keys=True))
        if key not in self.readers:
            self.readers[key] = reader_cls(fmt)(**opt.get("init", {}))
        return self.readers[key]

    def enabled_reduced(self, hist):
        """quick-tier menu: edits / writes only after representative reads (first document, default options of each
        format); a third read only with a reader class already used (instance reuse) or after an edit / write"""
        def rep(op):
            return op[0] == "read" and not op[3] and (op[2] == 0 or (op[1], op[2]) in REP_EXTRA)

        all_ops = self.enabled()
        reads_so_far = [o for o in hist if o[0] == "read"]
        only_reads = len(reads_so_far) == len(hist)
        out = []
        for op in all_ops:
            if op[0] == "read":
                if only_reads and len(hist) >= 2 and op[1] not in {o[1] for o in reads_so_far}:
                    continue
                out.append(op)
            elif all(rep(o) for o in reads_so_far):
                out.append(op)
        return out

    def enabled(self, max_results=2):
        ops = []
        if len(self.results) < max_results + 1:
            for fmt, optlist in READ_OPTS.items():
                for di in range(len(doc_pool()[fmt])):
                    for opt in optlist:
                        ops.append(("read", fmt, di, opt))
        for k in range(min(len(self.results), max_results)):
            for e in EDITS:
                ops.append(("edit", k, e))
            for w in WRITES:
                ops.append(("write", k, w))
        return ops

    def apply(self, op):
        """-> (result tuple or None, target index or None)"""
        if op[0] == "read":
            _, fmt, di, opt = op
            res, cs = do_read(self.reader(fmt, opt), fmt, di, opt)
            if cs is not None:
                self.results.append((fmt, di, opt, cs))
            return res, None
        if op[0] == "edit":
            do_edit(self.results[op[1]][3], op[2])
            return None, op[1]
        do_write(self.results[op[1]][3], op[2])
        return None, None

    def state(self, g):
        from mc import canon

        changed = canon.diff_state(_BASE or {}, g)
        return canon.digest((sorted((k, canon.dump(r)) for k, r in self.readers.items()), changed, [snapshot(r[3]) for r in self.results]))


def op_class(op):
    if op[0] == "read":
        return f"read:{op[1]}"
    if op[0] == "edit":
        return f"edit:{op[2]}"
    return f"write:{op[2]}"


def check_history(hist):
    """replays hist on a fresh world; checks the oracles at the LAST step. -> (violations, state digest, world, last result)"""
    import pycaption  # noqa: F401
    from pycaption.dfxp import extras  # noqa: F401

    from mc import canon

    global _BASE
    if _BASE is None:
        _BASE = canon.global_state()
    g0 = _BASE
    w = World()
    v = []
    res = None
    for i, op in enumerate(hist):
        last = i == len(hist) - 1
        if last:
            before = [snapshot(r[3]) for r in w.results]
        res, target = w.apply(op)
    after = [snapshot(r[3]) for r in w.results[: len(before)]]
    prev_class = "+".join(op_class(o) for o in hist[:-1]) or "-"
    for k, (a, b) in enumerate(zip(before, after)):
        if a != b and k != target:
            v.append((f"C10/isolation/earlier-result-changed-by/{op_class(hist[-1])}/result-of:{w.results[k][0]}", {"result_index": k}))
    if hist[-1][0] == "read":
        _, fmt, di, opt = hist[-1]
        ref = pristine(fmt, di, opt)
        if list(res) != ref[:2]:
            reused = any(o[0] == "read" and o[1] == fmt and json.dumps(o[3].get("init", {}), sort_keys=True) == json.dumps(opt.get("init", {}), sort_keys=True) for o in hist[:-1])
            if len(hist) == 1:
                cls = "first-read" + ("" if os.environ.get("PYTHONHASHSEED", "0") == "0" else "/hashseed-dependent")
            elif reused:
                cls = "reader-instance-reused"
            else:
                cls = "after:" + op_class(hist[-2])
            v.append((f"C10/read-differs-from-pristine/{fmt}/{cls}", {"got": res, "pristine": ref[:2], "pristine_summary": ref[2]}))
    if hist[-1][0] == "read" and res and res[0] == "ok":
        v += aliasing(w, hist)
    g1 = canon.global_state()
    if g1 != g0 and not v:
        # process-global state changed: not a violation by itself (it could be a harmless cache); probe every read
        # of the menu in this process against the pristine results
        v += probe_reads(hist, canon.diff_state(g0, g1))
        if not v:
            v.append(("_benign-global-change", None))
    return v, w.state(g1), w, res, g1


_GLOBAL_MUT = None


def aliasing(w, hist):
    """Isolation by construction: the newest result must not share a mutable container with an earlier result or with
    process-global state. A shared object is then actually mutated through the new result to demonstrate the
    interference (the earlier result changes / the same read in this process no longer equals the pristine read)."""
    from mc import canon

    global _GLOBAL_MUT
    if _GLOBAL_MUT is None:
        _GLOBAL_MUT = {}
        for r in canon.global_roots():
            _GLOBAL_MUT.update(canon.mutable_objects(r))
    new = w.results[-1]
    mine = canon.mutable_objects(new[3])
    out = []
    for k, old in enumerate(w.results[:-1]):
        theirs = canon.mutable_objects(old[3])
        shared = [i for i in mine if i in theirs]
        if shared:
            before = snapshot(old[3])
            _poke(mine[shared[0]])
            if snapshot(old[3]) != before:
                out.append((f"C10/isolation/results-share-a-mutable-object/{new[0]}+{old[0]}/{type(mine[shared[0]]).__name__}", {"result_index": k, "shared_objects": len(shared)}))
            return out
    shared = [i for i in mine if i in _GLOBAL_MUT]
    if shared:
        obj = mine[shared[0]]
        _poke(obj)
        fmt, di, opt, _ = new
        res2, _cs = do_read(reader_cls(fmt)(**opt.get("init", {})), fmt, di, opt)
        ref = pristine(fmt, di, opt)
        if list(res2) != ref[:2]:
            out.append((f"C10/isolation/result-shares-a-mutable-object-with-process-state/{fmt}/{type(obj).__name__}", {"shared_objects": len(shared), "reread": res2, "pristine": ref[:2]}))
    return out


def _poke(obj):
    if isinstance(obj, dict):
        obj["__verif_poke__"] = True
    elif isinstance(obj, list):
        obj.append(obj[0] if obj else None)
    elif isinstance(obj, set):
        obj.add("__verif_poke__")
    else:
        setattr(obj, "verif_poke", True)


def probe_reads(hist, changed_keys):
    out = []
    w = World()
    for op in w.enabled():
        if op[0] != "read":
            continue
        _, fmt, di, opt = op
        res, _cs = do_read(reader_cls(fmt)(**opt.get("init", {})), fmt, di, opt)
        ref = pristine(fmt, di, opt)
        if list(res) != ref[:2]:
            out.append((f"C10/read-differs-from-pristine/{fmt}/after-history-that-changed-process-state:{op_class(hist[-1])}", {"got": res, "pristine": ref[:2], "changed": changed_keys[:6]}))
            break
    return out


_BASE = None


def restore_globals():
    """after a pollution was reported, the worker's pycaption modules are reloaded so that later histories start clean"""
    global _BASE, _GLOBAL_MUT
    _GLOBAL_MUT = None
    for m in [m for m in sys.modules if m == "pycaption" or m.startswith("pycaption.")]:
        del sys.modules[m]
    import pycaption  # noqa: F401
    from pycaption.dfxp import extras  # noqa: F401

    _BASE = None


def explore(acc, first_ops, depth, states_out, reduced=False):
    seen = set()
    frontier = [[op] for op in first_ops]
    level = 1
    while frontier and level <= depth:
        nxt = []
        for hist in frontier:
            v, st, w, res, g1 = check_history(hist)
            acc.transitions += 1
            acc.traces += 1
            case = {"hist": [list(o) for o in hist], "_env": {"PYTHONHASHSEED": os.environ.get("PYTHONHASHSEED", "0")}}
            acc.case((hist, os.environ.get("PYTHONHASHSEED")), len(hist) >= 2, res, {"history": [list(o) for o in hist], "last_result": res} if len(hist) == depth else None)
            benign = [x for x in v if x[0] == "_benign-global-change"]
            v = [x for x in v if x[0] != "_benign-global-change"]
            if benign:
                acc.count("histories_that_changed_global_state_but_no_read")
            for sig, det in v:
                acc.violation(sig, case, det)
            if v or benign:
                restore_globals()
            states_out.add(st)
            if st in seen or v:
                continue
            seen.add(st)
            if level < depth:
                for op in (w.enabled_reduced(hist) if reduced else w.enabled()):
                    nxt.append(hist + [op])
        frontier = nxt
        level += 1


def shards(tier, seed):
    sh = []
    w = World()
    first = [list(o) for o in w.enabled()]
    # pristine references: every read of the menu, each in its own fresh interpreter (hash seed 0), computed once here
    from concurrent.futures import ThreadPoolExecutor

    reads = [o for o in w.enabled() if o[0] == "read"]
    with ThreadPoolExecutor(16) as ex:
        refs = list(ex.map(lambda o: pristine(o[1], o[2], o[3]), reads))
    table = [[o[1], o[2], json.dumps(o[3], sort_keys=True), r] for o, r in zip(reads, refs)]
    for hs in SEEDS[tier]:
        for i in range(len(first)):
            sh.append({"first": i, "depth": bounds(tier)["depth"] if (hs == "0" or tier == "thorough") else 2, "reduced": tier == "quick" or hs != "0", "_env": {"PYTHONHASHSEED": hs}, "pristine": table})
    for hs in SWEEP[tier]:
        if hs not in SEEDS[tier]:
            sh.append({"sweep": True, "_env": {"PYTHONHASHSEED": hs}, "pristine": table})
    return sh


def _op(o):
    return tuple(o)


def run_shard(d):
    acc = Acc()
    states = set()
    for fmt, di, optjs, r in d.get("pristine", []):
        _pristine_cache[(fmt, di, optjs)] = r
    w = World()
    if d.get("sweep"):
        explore(acc, [o for o in w.enabled() if o[0] == "read"], 1, states)
    else:
        explore(acc, [w.enabled()[d["first"]]], d["depth"], states, d.get("reduced", False))
    res = acc.result()
    res["extra"] = {"state_hashes": sorted(states)}
    return res


def finish(agg, tier, seed):
    u = set()
    for e in agg["extra"]:
        if e:
            u.update(e["state_hashes"])
    agg["states"] = len(u)


def replay(case):
    env = case.get("_env") or {}
    if env and any(os.environ.get(k) != v for k, v in env.items()):
        e = dict(os.environ)
        e.update(env)
        code = "import sys,json,warnings; warnings.filterwarnings('ignore'); sys.path.insert(0,%r); from mc.checks import c10; print(json.dumps(c10.replay(json.loads(sys.argv[1])), default=str))" % VERIF
        r = subprocess.run([sys.executable, "-B", "-c", code, json.dumps(case)], capture_output=True, text=True, env=e)
        try:
            return json.loads(r.stdout.strip().splitlines()[-1])
        except Exception:  # noqa
            return [{"sig": "_replay-error", "detail": (r.stdout + r.stderr)[-500:]}]
    hist = [tuple(o) for o in case["hist"]]
    v, _, _, _, _ = check_history(hist)
    return [{"sig": s, "detail": d} for s, d in v if s != "_benign-global-change"]
