"""C12  Positioning survives DFXP round trips and maps faithfully to WebVTT settings.

E3: percentage layouts from the full grid (origin x extent x padding arity x all alignment pairs) are attached at
language, caption and span level (and every two-level / three-level combination of a reduced layout list); the set is
written by DFXPWriter and read back by DFXPReader; each text's effective layout (node -> caption -> language -> DFXP
default) must be unchanged, absent parts taking the DFXP defaults. WebVTT: the cue settings of every layout with an
origin are parsed and compared with exact arithmetic; different node layouts split the caption into cues with equal
times; settings read from WebVTT are written back verbatim.
"""
import itertools
from fractions import Fraction

from mc import shared
from mc.acc import Acc
from mc.ref import parsers

ID = "C12"
LEVEL = "exploration"
RULE = (
    "layout grid = 5 origins x 3 extents x 6 paddings (None + arity 1..4 + zeros) x 16 alignments (5x3 + None), each attached at every "
    "single level; reduced list of 9 layouts at every ordered two-level pair and three-level triple; two captions / two spans with "
    "equal, one-component-different and default-equal layouts; x fit_to_screen on/off. WebVTT: all grid layouts with an origin x "
    "paddings x alignments, two-node captions with equal/different layouts, raw cue-setting strings. distinct = distinct (sub-domain, "
    "layouts, options); non-trivial = all"
)
ASSUMPTIONS = [
    "node-level layouts are attached the way readers produce them: on a flat style span (its STYLE nodes and the TEXT inside); bare TEXT nodes "
    "with a layout of their own that differs from the caption's form a separate sub-domain (known finding: DFXPWriter emits region= only on spans)",
    "with fit_to_screen on, the extent after the round trip may be the input extent or the fitted one (language-level layouts are not fitted; pinned by a fixture)",
    "a layout attached only to CaptionSet.layout_info is not one of the three levels the property names",
]
TRUSTED = ["mc.ref.parsers.parse_vtt", "fractions.Fraction"]
MANIFEST = {
    "technique": "bounded-exhaustive enumeration of layouts x attachment levels x options; oracle = reference effective-layout resolution compared after DFXP write+read, and exact cue-setting arithmetic on parsed WebVTT output",
    "text": "Every layout combination of the grid is pushed through the real DFXP writer and reader and compared per text node with an independent resolution of the effective layout; WebVTT cue settings are recomputed exactly.",
    "note": "Value grids are small (5 origins, 3 extents, paddings 0..4 %); alignment pairs, padding arities and attachment levels are exhaustive.",
}

ORIGINS = [None, ("0", "0"), ("10", "20"), ("50", "60"), ("89.99", "94.99")]
EXTENTS = [None, ("30", "40"), ("80", "80")]
PADDINGS = [None, ("1", "1", "1", "1"), ("1", "1", "2", "2"), ("1", "3", "2", "2"), ("1", "3", "4", "2"), ("0", "0", "0", "0")]  # before, after, start, end
HS = ["left", "center", "right", "start", "end"]
VS = ["top", "center", "bottom"]
ALIGNS = [None] + [(h, v) for h in HS for v in VS]


ORIGINS_T = ORIGINS + [("0.5", "0.25"), ("33.33", "66.67"), ("90", "95")]
EXTENTS_T = EXTENTS + [("0.5", "99.5"), ("100", "100")]
PADDINGS_T = PADDINGS + [("0.5", "0", "0", "0"), ("0", "0", "0", "4"), ("4", "3", "2", "1")]


def bounds(tier):
    if tier == "quick":
        return {"origins": len(ORIGINS), "extents": len(EXTENTS), "paddings": len(PADDINGS), "alignments": len(ALIGNS)}
    return {"origins": len(ORIGINS_T), "extents": len(EXTENTS_T), "paddings": len(PADDINGS_T), "alignments": len(ALIGNS), "note": "plus every grid layout at each two-level combination with a fixed partner layout"}


def grid(tier="quick"):
    O, E, P = (ORIGINS, EXTENTS, PADDINGS) if tier == "quick" else (ORIGINS_T, EXTENTS_T, PADDINGS_T)  # noqa: N806
    for o, e, p, a in itertools.product(O, E, P, ALIGNS):
        if o is None and e is None and p is None and a is None:
            continue
        yield (o, e, p, a)


REDUCED = [
    (("10", "20"), None, None, None),
    (("10", "20"), ("30", "40"), None, None),
    (("10", "20"), ("30", "40"), ("1", "1", "1", "1"), ("center", "top")),
    (("50", "60"), ("30", "40"), None, None),
    (None, None, None, ("right", "center")),
    (None, None, None, ("start", "bottom")),  # equal to the DFXP default region
    (None, None, ("1", "3", "4", "2"), None),
    (("10", "20"), ("30", "40"), ("1", "1", "1", "1"), ("center", "bottom")),
    (("10", "20.5"), None, None, ("left", "top")),
]


# layouts whose arithmetic (edge + padding, width - paddings) or whose printing lands a hair away from a multiple of ten
NOISY = [
    (("7.8", "17.8"), ("32.2", "40"), ("2.2", "0", "2.2", "0"), None),
    (("29.999", "40.004"), ("10.001", "19.996"), None, None),
    (("16.1", "6.1"), ("16.1", "26.1"), ("3.9", "0", "3.9", "6.1"), ("left", "top")),
    (("0.004", "9.996"), ("99.996", "50.004"), None, None),
    # one-decimal values whose product with 100 lands just below an integer in binary floating point
    (("8.7", "33.3"), ("40.3", "16.1"), ("4.6", "0", "4.6", "8.2"), None),
    (("1.1", "2.3"), ("4.7", "9.2"), None, ("right", "top")),
]


def mk_layout(spec):
    from pycaption.geometry import Alignment, HorizontalAlignmentEnum, Layout, Padding, Point, Size, Stretch, UnitEnum, VerticalAlignmentEnum

    if spec is None:
        return None
    o, e, p, a = spec
    P = UnitEnum.PERCENT
    return Layout(
        origin=Point(Size(float(o[0]), P), Size(float(o[1]), P)) if o else None,
        extent=Stretch(Size(float(e[0]), P), Size(float(e[1]), P)) if e else None,
        padding=Padding(before=Size(float(p[0]), P), after=Size(float(p[1]), P), start=Size(float(p[2]), P), end=Size(float(p[3]), P)) if p else None,
        alignment=Alignment(HorizontalAlignmentEnum(a[0]), VerticalAlignmentEnum(a[1])) if a else None,
    )


def effective_level(desc, text):
    """which level the effective layout of a text comes from: 'node' / 'caption' / 'lang'"""
    for d in [desc] + ([desc["second"]] if desc.get("second") else []):
        for c in d["captions"]:
            for t, spec, kind in c["parts"]:
                if t == text:
                    if spec is not None and kind in ("span", "bare"):
                        return "node"
                    return "caption" if c.get("layout") is not None else "lang"
    return "lang"


def norm_spec(spec, fit=False, must_fit=False):
    """reference normal form(s) of an effective layout after a DFXP round trip: a set of acceptable tuples"""
    if spec is None:
        spec = (None, None, None, None)
    o, e, p, a = spec
    f = lambda x: round(float(x) + 1e-9, 2)  # a DFXP round trip prints lengths with two decimals
    no = (f(o[0]), f(o[1])) if o else None
    ne = (f(e[0]), f(e[1])) if e else None
    np_ = tuple(f(x) for x in p) if p else None
    na = (a[0], a[1]) if a else ("start", "bottom")
    out = {(no, ne, np_, na)}
    if fit and o:
        rx, ry = f(90 - float(o[0])), f(95 - float(o[1]))
        if e is None:
            fe = (rx, ry)
        else:
            fe = (rx if float(o[0]) + float(e[0]) > 90 else f(e[0]), ry if float(o[1]) + float(e[1]) > 95 else f(e[1]))
        if must_fit:
            # caption- and node-level layouts are fitted whenever fit_to_screen is on (language-level ones are only
            # relativized - pinned by tests/test_dfxp_conversion.py::test_empty_cue - so there either form is accepted)
            return {(no, fe, np_, na)}
        out.add((no, fe, np_, na))
    return out


def norm_real(layout):
    if layout is None:
        return (None, None, None, ("start", "bottom"))
    f = lambda s: round(s.value + 1e-9, 2)
    def unit_ok(s):
        return s.unit.value == "%"
    o = (f(layout.origin.x), f(layout.origin.y)) if layout.origin else None
    e = (f(layout.extent.horizontal), f(layout.extent.vertical)) if layout.extent else None
    p = (f(layout.padding.before), f(layout.padding.after), f(layout.padding.start), f(layout.padding.end)) if layout.padding else None
    if layout.alignment:
        h = layout.alignment.horizontal.value if layout.alignment.horizontal else "start"
        v = layout.alignment.vertical.value if layout.alignment.vertical else "bottom"
        a = (h, v)
    else:
        a = ("start", "bottom")
    return (o, e, p, a)


# ---- DFXP round trip ------------------------------------------------------------------------------------------
def build(desc):
    """desc: dict(lang=spec|None, captions=[dict(layout=spec|None, parts=[(text, spec|None, kind)])])
    kind: 'span' (flat style span carrying the layout), 'plain' (text without own layout), 'bare' (TEXT node with its own layout, no span)"""
    from pycaption import Caption, CaptionList, CaptionNode, CaptionSet

    cache = {}

    def mk(spec):
        # desc["share"]: equal layouts of one set are one Layout object (what user code that positions several
        # captions alike naturally does)
        if not desc.get("share"):
            return mk_layout(spec)
        if spec not in cache:
            cache[spec] = mk_layout(spec)
        return cache[spec]

    def one_language(d):
        cl = CaptionList(layout_info=mk(d.get("lang")))
        t = 1000000
        for c in d["captions"]:
            nodes = []
            for i, (text, spec, kind) in enumerate(c["parts"]):
                if i:
                    nodes.append(CaptionNode.create_break())
                if kind == "span":
                    L = mk(spec)
                    nodes += [CaptionNode.create_style(True, {"italics": True}, layout_info=L), CaptionNode.create_text(text, layout_info=L), CaptionNode.create_style(False, {"italics": True}, layout_info=L)]
                elif kind == "ispan":
                    # an italic span that has no layout of its own inside a positioned caption
                    nodes += [CaptionNode.create_style(True, {"italics": True}), CaptionNode.create_text(text), CaptionNode.create_style(False, {"italics": True})]
                elif kind == "bare":
                    nodes.append(CaptionNode.create_text(text, layout_info=mk(spec)))
                else:
                    nodes.append(CaptionNode.create_text(text))
            cl.append(Caption(t, t + 1000000, nodes, layout_info=mk(c.get("layout"))))
            t += 2000000
        return cl

    langs = {"en-US": one_language(desc)}
    if desc.get("second"):
        langs["fr-FR"] = one_language(desc["second"])
    return CaptionSet(langs)


def expected_effective(desc):
    out = {}
    for d in [desc] + ([desc["second"]] if desc.get("second") else []):
        for c in d["captions"]:
            for text, spec, kind in c["parts"]:
                eff = spec if (spec is not None and kind in ("span", "bare")) else None
                if eff is None:
                    eff = c.get("layout")
                if eff is None:
                    eff = d.get("lang")
                out[text] = eff
    return out


def eval_dfxp(desc, fit, relativize=True):
    from pycaption import DFXPReader, DFXPWriter

    v = []
    klass = desc.get("klass", "single-level")
    try:
        from mc import canon

        src = build(desc)
        before = canon.digest(src)
        doc = shared.obj(DFXPWriter, fit_to_screen=fit, relativize=relativize).write(src)
        if canon.digest(src) != before:
            v.append((f"C12/dfxp/{klass}/caption-set-layouts-changed-by-writing", {"fit": fit}))
        cs = shared.obj(DFXPReader).read(doc)
    except Exception as e:  # noqa
        return [(f"C12/dfxp/{klass}/raises:{type(e).__name__}", {"err": str(e)[:300]})], "raises"
    exp = expected_effective(desc)
    got = {}
    for code, d in [("en-US", desc)] + ([("fr-FR", desc["second"])] if desc.get("second") else []):
        if code not in cs.get_languages():
            return [(f"C12/dfxp/{klass}/language-lost", {"got": cs.get_languages()})], "count"
        lang_l = cs.get_layout_info(code)
        caps = cs.get_captions(code)
        if len(caps) != len(d["captions"]):
            return [(f"C12/dfxp/{klass}/caption-count", {"got": len(caps)})], "count"
        for c in caps:
            for n in c.nodes:
                if n.type_ == 1:
                    eff = n.layout_info or c.layout_info or lang_l
                    got[n.content.strip()] = norm_real(eff)
    bare = any(k == "bare" for c in desc["captions"] for _, _, k in c["parts"])
    for text, spec in exp.items():
        if text not in got:
            v.append((f"C12/dfxp/{klass}/text-lost", {"text": text}))
            continue
        acc = norm_spec(spec, fit, must_fit=effective_level(desc, text) != "lang")
        if got[text] not in acc:
            comp = [n for n, a, b in zip(("origin", "extent", "padding", "alignment"), got[text], sorted(acc, key=repr)[0]) if a != b]
            if bare:
                cap_layouts = [c.get("layout") for c in desc["captions"] if any(t == text for t, _, _ in c["parts"])]
                if got[text] in norm_spec(cap_layouts[0], fit):
                    sig = "C12/dfxp/bare-text-node-layout/node-layout-replaced-by-caption-layout"
                else:
                    sig = "C12/dfxp/bare-text-node-layout/effective-layout-differs:" + "+".join(comp)
            else:
                sig = f"C12/dfxp/{klass}/effective-layout-differs:" + "+".join(comp)
            v.append((sig, {"text": text, "got": got[text], "want": sorted(acc, key=repr), "doc": doc[:1500]}))
    return v, tuple(sorted((k, repr(x)) for k, x in got.items()))


# ---- WebVTT -----------------------------------------------------------------------------------------------------
def fmt_pct(x):
    x = Fraction(x)
    return x


def expected_settings(spec, fit):
    """-> dict of expected cue settings (Fractions for numbers) for a layout with an origin"""
    o, e, p, a = spec
    out = {}
    h = a[0] if a else "start"
    if h != "center":
        out["align"] = h
    if o:
        ox, oy = Fraction(o[0]), Fraction(o[1])
        ew = Fraction(e[0]) if e else None
        if fit:
            room = 90 - ox
            if ew is None or ox + ew > 90:
                ew = room
        pos, line, size = ox, oy, ew
        if p:
            pos = ox + Fraction(p[2])
            line = oy + Fraction(p[0])
            if size is not None:
                size = size - Fraction(p[2]) - Fraction(p[3])
        out["position"] = pos
        out["line"] = line
        if size is not None:
            out["size"] = size
    return out


def settings_match(settings, want):
    got = {}
    for kv in settings.split():
        if ":" not in kv:
            return f"malformed setting {kv!r}"
        k, val = kv.split(":", 1)
        if k in got:
            return f"duplicate setting {k}"
        got[k] = val
    if set(got) != set(want):
        return f"settings {sorted(got)} want {sorted(want)}"
    for k, w in want.items():
        if k == "align":
            if got[k] != w:
                return f"align {got[k]} want {w}"
        else:
            if not got[k].endswith("%"):
                return f"{k} not a percentage: {got[k]}"
            try:
                g = Fraction(got[k][:-1])
            except ValueError:
                return f"{k} not a number: {got[k]}"
            if abs(g - w) > Fraction(1, 200):
                return f"{k} {got[k]} want {float(w)}%"
    return None


def eval_vtt(desc, fit, relativize=True):
    from pycaption import WebVTTWriter

    klass = desc.get("klass", "vtt")
    try:
        doc = (shared.obj(WebVTTWriter, fit_to_screen=fit) if relativize else shared.obj(WebVTTWriter, fit_to_screen=fit, relativize=False)).write(build(desc))
        cues = parsers.parse_vtt(doc)
    except Exception as e:  # noqa
        return [(f"C12/webvtt/{klass}/raises:{type(e).__name__}", {"err": str(e)[:300]})], "raises"
    v = []
    exp = expected_effective(desc)
    # expected cue list: per caption, group consecutive parts with equal effective layout
    want_cues = []
    t = 1000
    for c in desc["captions"]:
        groups = []
        for text, spec, kind in c["parts"]:
            eff = exp[text]
            if groups and groups[-1][0] == eff:
                groups[-1][1].append(text)
            else:
                groups.append((eff, [text]))
        for eff, texts in groups:
            want_cues.append((t, t + 1000, eff, texts))
        t += 2000
    if len(cues) != len(want_cues):
        return [(f"C12/webvtt/{klass}/cue-count", {"got": len(cues), "want": len(want_cues), "doc": doc})], "count"
    for cue, (s, e, eff, texts) in zip(cues, want_cues):
        if (cue["start"], cue["end"]) != (s, e):
            v.append((f"C12/webvtt/{klass}/split-cue-times", {"got": [cue["start"], cue["end"]], "want": [s, e]}))
        got_texts = [parsers.norm_line(l) for l in cue["lines"] if parsers.norm_line(l)]
        if got_texts != texts:
            v.append((f"C12/webvtt/{klass}/cue-text", {"got": got_texts, "want": texts}))
        if eff is not None and eff[0] is not None:
            err = settings_match(cue["settings"], expected_settings(eff, fit))
            if err:
                v.append((f"C12/webvtt/{klass}/settings:" + err.split(" ")[0], {"err": err, "settings": cue["settings"], "layout": eff, "fit": fit}))
    return v, tuple(c["settings"] for c in cues)


RAW_SETTINGS = ["align:left", "position:10%,line-left line:5% size:40%", "vertical:rl line:0", "region:Fred", "align:middle  line:84%", "line:-1 align:end position:100%"]


def eval_verbatim(settings_list):
    from pycaption import WebVTTReader, WebVTTWriter

    # a settings entry prefixed with "EMPTY:" belongs to a cue without text (no caption comes of it, and its settings
    # must not travel to a neighbour)
    lines = ["WEBVTT", ""]
    want = []
    for i, s in enumerate(settings_list):
        empty = s.startswith("EMPTY:")
        s = s[6:] if empty else s
        lines += [f"00:0{i}.000 --> 00:0{i}.500" + (f" {s}" if s else "")] + ([] if empty else [f"cue {i}"]) + [""]
        if not empty:
            want.append(s)
    try:
        out = WebVTTWriter().write(WebVTTReader().read("\n".join(lines)))
        cues = parsers.parse_vtt(out)
    except Exception as e:  # noqa
        return [(f"C12/webvtt/verbatim/raises:{type(e).__name__}", {"err": str(e)[:200]})], "raises"
    got = [c["settings"] for c in cues]
    if got != want:
        return [("C12/webvtt/verbatim/settings-changed" + ("/next-to-an-empty-cue" if len(want) != len(settings_list) else ""), {"got": got, "want": want})], "changed"
    return [], tuple(got)


# ---- enumeration ---------------------------------------------------------------------------------------------------
def reuse_items():
    items = []
    g = list(grid())
    for i, spec in enumerate(g[::53]):
        level = ("lang", "caption", "span")[i % 3]
        items.append(("dfxp", single_level_desc(spec, level), bool(i % 2)))
        if spec[0]:
            items.append(("vtt", dict(single_level_desc(spec, level), klass="vtt-" + level), bool(i % 2)))
        a, b = REDUCED[i % len(REDUCED)], REDUCED[(i * 3 + 1) % len(REDUCED)]
        items.append(("dfxp", {"lang": a, "captions": [{"layout": b, "parts": [("t0", None, "plain")]}], "klass": "lang+caption"}, False))
    return items


def reuse_eval(item):
    fn = eval_dfxp if item[0] == "dfxp" else eval_vtt
    return fn(item[1], item[2])


def eval_dfxp_doc(variant):
    """a generated DFXP document whose region is spelled by hand -> effective layout of its text"""
    from pycaption import DFXPReader

    from mc.ref import docs

    origin, extent, pad_vals, align = variant
    attrs = ""
    if origin:
        attrs += f' tts:origin="{origin[0]}% {origin[1]}%"'
    if extent:
        attrs += f' tts:extent="{extent[0]}% {extent[1]}%"'
    if pad_vals:
        attrs += ' tts:padding="' + " ".join(p + "%" for p in pad_vals) + '"'
    if align:
        attrs += f' tts:textAlign="{align[0]}" tts:displayAlign="{ {"top": "before", "center": "center", "bottom": "after"}[align[1]] }"'
    doc = docs.dfxp_doc([("en", [('begin="1s" end="2s" region="r1"', "t0")])], head=f'<layout><region xml:id="r1"{attrs}/></layout>')
    try:
        cs = shared.obj(DFXPReader).read(doc)
    except Exception as e:  # noqa
        return [(f"C12/dfxp-document/raises:{type(e).__name__}", {"err": str(e)[:200], "doc": doc})], "raises"
    # TTML shorthand: 1 value = all; 2 = (before/after, start/end); 3 = (before, start/end, after); 4 = before end after start
    pad = None
    if pad_vals:
        z = list(pad_vals)
        if len(z) == 1:
            before = end = after = start = z[0]
        elif len(z) == 2:
            before, end, after, start = z[0], z[1], z[0], z[1]
        elif len(z) == 3:
            before, end, after, start = z[0], z[1], z[2], z[1]
        else:
            before, end, after, start = z
        pad = (before, after, start, end)
    want = norm_spec((origin, extent, pad, align))
    c = cs.get_captions("en")[0]
    n = [x for x in c.nodes if x.type_ == 1][0]
    got = norm_real(n.layout_info or c.layout_info or cs.get_layout_info("en"))
    if got not in want:
        comp = [nm for nm, a, b in zip(("origin", "extent", "padding", "alignment"), got, sorted(want, key=repr)[0]) if a != b]
        return [(f"C12/dfxp-document/padding-arity{len(pad_vals) if pad_vals else 0}/effective-layout-differs:" + "+".join(comp), {"got": got, "want": sorted(want, key=repr), "region": attrs})], "differs"
    return [], got


def dfxp_doc_variants():
    pads = [None, ("1",), ("1", "3"), ("1", "3", "4"), ("1", "3", "4", "2"), ("0", "2"), ("2.5", "0", "1")]
    for o in (None, ("10", "20")):
        for e in (None, ("30", "40")):
            for p in pads:
                for a in (None, ("center", "top"), ("right", "bottom")):
                    if o is None and e is None and p is None and a is None:
                        continue
                    yield (o, e, p, a)


def single_level_desc(spec, level):
    if level == "lang":
        return {"lang": spec, "captions": [{"layout": None, "parts": [("t0", None, "plain")]}, {"layout": None, "parts": [("t1", None, "plain")]}, {"layout": None, "parts": [("t2", None, "plain")]}], "klass": "lang-level"}
    if level == "caption":
        return {"lang": None, "captions": [{"layout": spec, "parts": [("t0", None, "plain")]}], "klass": "caption-level"}
    return {"lang": None, "captions": [{"layout": None, "parts": [("t0", spec, "span"), ("t1", None, "plain")]}], "klass": "span-level"}


def shards(tier, seed):
    sh = []
    np_ = 6 if tier == "quick" else 16
    for level in ("lang", "caption", "span"):
        for part in range(np_):
            sh.append({"k": "single", "level": level, "part": part, "nparts": np_, "tier": tier})
    sh.append({"k": "multi"})
    sh.append({"k": "pairs"})
    sh.append({"k": "reuse"})
    sh.append({"k": "dfxp-docs"})
    if tier == "thorough":
        for part in range(16):
            sh.append({"k": "two-level-grid", "part": part, "nparts": 16, "tier": tier})
    for part in range(4 if tier == "quick" else 12):
        sh.append({"k": "vtt", "part": part, "nparts": 4 if tier == "quick" else 12, "tier": tier})
    sh.append({"k": "vtt2"})
    sh.append({"k": "bare"})
    return sh


def run_shard(d):
    acc = Acc()
    k = d["k"]

    def run(fn, desc, fit, keyx=(), relativize=True):
        v, out = fn(desc, fit) if relativize else fn(desc, fit, False)
        acc.case((k, desc, fit, relativize) + keyx, True, out, {"layouts": {kk: vv for kk, vv in desc.items() if kk != "klass"}, "fit_to_screen": fit, "writer": "DFXP" if fn is eval_dfxp else "WebVTT"})
        for sig, det in v:
            acc.violation(sig + ("" if relativize else "/relativize-off"), {"fn": fn.__name__, "desc": desc, "fit": fit, "relativize": relativize}, det)

    if k == "dfxp-docs":
        for var in dfxp_doc_variants():
            v, out = eval_dfxp_doc(var)
            acc.case(("dfxp-doc", var), True, out, {"generated_dfxp_region": var})
            for sig, det in v:
                acc.violation(sig, {"fn": "dfxp-doc", "variant": var}, det)
    elif k == "reuse":
        shared.run(acc, reuse_items(), reuse_eval, sample=lambda it: {"reuse_run_step": [it[0], it[1], it[2]]})
    elif k == "two-level-grid":
        partner = REDUCED[2]
        for i, spec in enumerate(grid(d["tier"])):
            if i % d["nparts"] != d["part"] or spec == partner:
                continue
            run(eval_dfxp, {"lang": spec, "captions": [{"layout": partner, "parts": [("t0", None, "plain")]}, {"layout": None, "parts": [("t1", None, "plain")]}], "klass": "lang+caption"}, False)
            run(eval_dfxp, {"lang": partner, "captions": [{"layout": None, "parts": [("t0", spec, "span"), ("t1", None, "plain")]}], "klass": "lang+span"}, False)
            run(eval_dfxp, {"lang": None, "captions": [{"layout": spec, "parts": [("t0", partner, "span"), ("t1", None, "plain")]}, {"layout": partner, "parts": [("t2", spec, "span")]}], "klass": "caption+span"}, True)
    elif k == "single":
        for i, spec in enumerate(grid(d.get("tier", "quick"))):
            if i % d["nparts"] != d["part"]:
                continue
            for fit in (False, True):
                run(eval_dfxp, single_level_desc(spec, d["level"]), fit)
    elif k == "multi":
        for a, b in itertools.permutations(REDUCED, 2):
            for fit in (False, True):
                run(eval_dfxp, {"lang": a, "captions": [{"layout": b, "parts": [("t0", None, "plain")]}], "klass": "lang+caption"}, fit)
                run(eval_dfxp, {"lang": a, "captions": [{"layout": None, "parts": [("t0", b, "span"), ("t1", None, "plain")]}], "klass": "lang+span"}, fit)
                run(eval_dfxp, {"lang": None, "captions": [{"layout": a, "parts": [("t0", b, "span"), ("t1", None, "plain")]}], "klass": "caption+span"}, fit)
        for a, b, c in itertools.permutations(REDUCED[:6], 3):
            run(eval_dfxp, {"lang": a, "captions": [{"layout": b, "parts": [("t0", c, "span"), ("t1", None, "plain")]}], "klass": "three-levels"}, False)
        # percentage layouts written with relativization off (fit on / off): nothing to relativize, fitting still applies
        for a in REDUCED:
            for fit in (False, True):
                for level in ("lang", "caption", "span"):
                    run(eval_dfxp, dict(single_level_desc(a, level), klass="relativize-off-" + level), fit, (), False)
        # a styled span without a layout of its own takes the nearest enclosing layout (caption, then language)
        for a, b in itertools.product([None] + REDUCED, REDUCED):
            if a == b:
                continue
            for fit in (False, True):
                run(eval_dfxp, {"lang": a, "captions": [{"layout": b, "parts": [("t0", None, "ispan"), ("t1", None, "plain")]}, {"layout": None, "parts": [("t2", None, "ispan")]}], "klass": "unpositioned-span-in-positioned-caption"}, fit)
        # two languages, each with layouts of its own at language / caption / span level
        for a, b in itertools.permutations(REDUCED, 2):
            for lvl in ("lang", "caption", "span"):
                en = single_level_desc(a, lvl)
                fr = single_level_desc(b, lvl)
                fr["captions"] = [{"layout": c["layout"], "parts": [("u" + t[1:], sp, k_) for t, sp, k_ in c["parts"]]} for c in fr["captions"]]
                run(eval_dfxp, dict(en, second=fr, klass="two-languages-" + lvl), False)
                if a[0] and b[0] and lvl != "span":
                    run(eval_dfxp, dict(en, second=fr, klass="two-languages-" + lvl), True)
        # the same level combinations written to WebVTT (effective layout: node -> caption -> language)
        wo = [s for s in REDUCED if s[0]]
        for a, b in itertools.permutations(wo, 2):
            for fit in (False, True):
                run(eval_vtt, {"lang": a, "captions": [{"layout": b, "parts": [("t0", None, "plain")]}, {"layout": None, "parts": [("t1", None, "plain")]}], "klass": "vtt-lang+caption"}, fit)
                run(eval_vtt, {"lang": a, "captions": [{"layout": None, "parts": [("t0", b, "span"), ("t1", None, "plain")]}], "klass": "vtt-lang+span"}, fit)
                run(eval_vtt, {"lang": None, "captions": [{"layout": a, "parts": [("t0", b, "span"), ("t1", None, "plain")]}], "klass": "vtt-caption+span"}, fit)
        for a, b, c in itertools.permutations(wo, 3):
            run(eval_vtt, {"lang": a, "captions": [{"layout": b, "parts": [("t0", c, "span"), ("t1", None, "plain")]}], "klass": "vtt-three-levels"}, False)
    elif k == "pairs":
        for a, b in itertools.product(REDUCED, repeat=2):
            for fit in (False, True):
                run(eval_dfxp, {"lang": None, "captions": [{"layout": a, "parts": [("t0", None, "plain")]}, {"layout": b, "parts": [("t1", None, "plain")]}], "klass": "two-captions"}, fit)
                run(eval_dfxp, {"lang": None, "captions": [{"layout": None, "parts": [("t0", a, "span"), ("t1", b, "span"), ("t2", None, "plain")]}], "klass": "two-spans"}, fit)
    elif k == "vtt":
        for i, spec in enumerate(grid(d.get("tier", "quick"))):
            if i % d["nparts"] != d["part"] or spec[0] is None:
                continue
            for fit in (False, True):
                for level in ("lang", "caption", "span"):
                    if level != "caption" and (i // d["nparts"]) % 5:
                        continue
                    desc = single_level_desc(spec, level)
                    desc["klass"] = "vtt-" + desc["klass"]
                    run(eval_vtt, desc, fit)
    elif k == "vtt2":
        withorigin = [s for s in REDUCED if s[0]] + [(("10", "20"), ("30", "40"), ("1", "3", "4", "2"), None)]  # the last one: paddings that differ on every side
        for a, b in itertools.product(withorigin, repeat=2):
            for kind in ("span", "bare"):
                for fit in (False, True):
                    run(eval_vtt, {"lang": None, "captions": [{"layout": None, "parts": [("t0", a, kind), ("t1", b, kind)]}, {"layout": a, "parts": [("t2", None, "plain")]}], "klass": "vtt-two-nodes-" + kind}, fit)
        for a in NOISY:
            for fit in (False, True):
                for level in ("lang", "caption", "span"):
                    desc = single_level_desc(a, level)
                    run(eval_vtt, dict(desc, klass="vtt-noisy-arithmetic-" + level), fit)
                    run(eval_dfxp, dict(desc, klass="noisy-values-" + level), fit)
        # one Layout object positions several captions (equal layouts of a set share the object)
        for a in withorigin:
            for fit in (False, True):
                run(eval_vtt, {"lang": None, "share": True, "captions": [{"layout": a, "parts": [("t0", None, "plain")]}, {"layout": a, "parts": [("t1", None, "plain")]}, {"layout": None, "parts": [("t2", a, "span")]}], "klass": "vtt-shared-layout-object"}, fit)
                run(eval_dfxp, {"lang": None, "share": True, "captions": [{"layout": a, "parts": [("t0", None, "plain")]}, {"layout": a, "parts": [("t1", None, "plain")]}, {"layout": None, "parts": [("t2", a, "span")]}], "klass": "shared-layout-object"}, fit)
                # percentage layouts need no relativization: the same cues with relativization switched off
                run(eval_vtt, {"lang": None, "share": True, "captions": [{"layout": a, "parts": [("t0", None, "plain")]}, {"layout": a, "parts": [("t1", None, "plain")]}, {"layout": None, "parts": [("t2", a, "span")]}], "klass": "vtt-shared-layout-object"}, fit, (), False)
                run(eval_vtt, dict(single_level_desc(a, "lang"), klass="vtt-lang-level"), fit, (), False)
        for a_ in RAW_SETTINGS[:3]:
            for b_ in RAW_SETTINGS[:3] + [""]:
                for combo in (("EMPTY:" + a_, b_), (b_, "EMPTY:" + a_, ""), ("", "EMPTY:" + a_, b_)):
                    v, out = eval_verbatim(combo)
                    acc.case(("verbatim", combo), True, out, {"webvtt_settings_in_file": combo})
                    for sig, det in v:
                        acc.violation(sig, {"fn": "verbatim", "settings": list(combo)}, det)
        for n in (1, 2, 3):
            for combo in itertools.product(RAW_SETTINGS + [""], repeat=n):
                v, out = eval_verbatim(combo)
                acc.case(("verbatim", combo), True, out, {"webvtt_settings_in_file": combo})
                for sig, det in v:
                    acc.violation(sig, {"fn": "verbatim", "settings": list(combo)}, det)
    else:  # bare TEXT nodes with their own layout (separately reported sub-domain)
        for a, b in itertools.product(REDUCED[:5], repeat=2):
            if a == b:
                continue
            run(eval_dfxp, {"lang": None, "captions": [{"layout": a, "parts": [("t0", b, "bare")]}], "klass": "bare"}, False)
    return acc.result()


def _t(x):
    if isinstance(x, list):
        return tuple(_t(i) for i in x)
    if isinstance(x, dict):
        return {k: _t(v) for k, v in x.items()}
    return x


def replay(case):
    if case.get("reuse"):
        return shared.replay(reuse_items(), reuse_eval, case["index"])
    if case["fn"] == "dfxp-doc":
        v, _ = eval_dfxp_doc(_t(case["variant"]))
        return [{"sig": s, "detail": d} for s, d in v]
    if case["fn"] == "verbatim":
        v, _ = eval_verbatim(tuple(case["settings"]))
        return [{"sig": s, "detail": d} for s, d in v]
    desc = case["desc"]
    def fix(dd):
        d3 = {"lang": _t(dd.get("lang")), "klass": dd.get("klass"), "captions": [], "share": dd.get("share")}
        for c in dd["captions"]:
            d3["captions"].append({"layout": _t(c.get("layout")), "parts": [(p[0], _t(p[1]), p[2]) for p in c["parts"]]})
        if dd.get("second"):
            d3["second"] = fix(dd["second"])
        return d3

    d2 = fix(desc)
    fn = eval_dfxp if case["fn"] == "eval_dfxp" else eval_vtt
    if case.get("relativize") is False:
        v, _ = fn(d2, case["fit"], False)
        return [{"sig": s + "/relativize-off", "detail": d} for s, d in v]
    v, _ = fn(d2, case["fit"])
    return [{"sig": s, "detail": d} for s, d in v]
