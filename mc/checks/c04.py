"""C04  Read text equals authored text: entities decoded once, markup stripped.

E3: abstract captions (lines of pieces; a piece = displayed text + one encoding of it in the source format) are
serialised by independent serialisers with every encoding variant (named / decimal / hex references, literal
entity-looking text encoded once, line-break markup variants, source line wrapping, inline style tags, WebVTT voice /
class / timestamp / unknown tags) and read by the real readers. Oracle: the displayed lines of the abstract caption
(decoded exactly once, tags contribute nothing, voice -> 'Name: ', unknown WebVTT tags literal), compared with the
caption's TEXT/BREAK structure modulo per-line trim and whitespace-run collapse.
"""
import itertools

from mc import shared
from mc.acc import Acc
from mc.ref import docs, parsers

ID = "C04"
LEVEL = "exploration"
RULE = (
    "per format: all sequences of <= N pieces per line over the format's piece alphabet (entity spellings, tags, plain words) joined by "
    "a space or by a source line wrap; 1..3 lines over a reduced alphabet x break-markup variants; two-caption documents. distinct = "
    "distinct (format, document); non-trivial = caption has a visible character"
)
ASSUMPTIONS = [
    "piece alphabets are finite (listed in the module); DFXP uses XML-defined references only",
    "comparison modulo per-line trim / whitespace-run collapse (NBSP counts as whitespace)",
    "SRT and MicroDVD have no escaping: their text is literal",
]
TRUSTED = ["mc.ref.docs serialisers"]
MANIFEST = {
    "technique": "bounded-exhaustive enumeration of piece sequences x encoding variants per format through independent serialisers; oracle = displayed text of the abstract model",
    "text": "Every document in the bounded family is read by the real reader; per caption the list of displayed lines must equal the abstract model's.",
    "note": "Finite piece alphabets and line/caption bounds; serialisers are the trusted base.",
}

NB = "\u00a0"
E_ACUTE = "\u00e9"

# (displayed, encoded, class)
DFXP_PIECES = [
    ("word", "word", "plain"),
    ("two", "two", "plain"),
    ("&", "&amp;", "amp-named"),
    ("&", "&#38;", "amp-decimal"),
    ("&", "&#x26;", "amp-hex"),
    ("<", "&lt;", "lt-named"),
    ("<", "&#60;", "lt-decimal"),
    ("<", "&#x3c;", "lt-hex"),
    (">", "&gt;", "gt-named"),
    (">", ">", "gt-literal"),
    ("&lt;", "&amp;lt;", "entity-text-encoded-once"),
    ("&amp;", "&amp;amp;", "entity-text-encoded-once"),
    ("&#65;", "&amp;#65;", "entity-text-encoded-once"),
    ("&apos;", "&amp;apos;", "entity-text-encoded-once"),
    ("&quot;", "&amp;quot;", "entity-text-encoded-once"),
    ("&gt;", "&amp;gt;", "entity-text-encoded-once"),
    ('"', "&quot;", "quot"),
    ("'", "&apos;", "apos-named"),
    ("'", "'", "apos-literal"),
    (E_ACUTE, E_ACUTE, "nonascii-literal"),
    (E_ACUTE, "&#233;", "nonascii-decimal"),
    ("<x>", "&lt;x&gt;", "markup-text-named"),
    ("<x>y", "&#60;x&#62;y", "markup-text-decimal"),
    ("<br/>", "&lt;br/&gt;", "known-tag-text-escaped"),
    ("<span>x</span>", "&lt;span&gt;x&lt;/span&gt;", "known-tag-text-escaped"),
    ("a&b;", "a&#38;b;", "entity-text-decimal"),
    ("it", '<span tts:fontStyle="italic">it</span>', "span"),
    ("ab", '<span tts:fontStyle="italic">a<span tts:fontWeight="bold">b</span></span>', "nested-span"),
    ("st", '<span style="s1">st</span>', "span"),
    ("ab", "a<!-- note -->b", "comment"),
    ("word", "<!--x-->word<!-- a < b -->", "comment"),
    ("c&d<", "<![CDATA[c&d<]]>", "cdata-section"),
]
SAMI_PIECES = [
    ("word", "word", "plain"),
    ("two", "two", "plain"),
    ("&", "&amp;", "amp-named"),
    ("&", "&#38;", "amp-decimal"),
    ("&", "&#x26;", "amp-hex"),
    ("<", "&lt;", "lt-named"),
    ("<", "&#60;", "lt-decimal"),
    ("<", "&#x3c;", "lt-hex"),
    (">", "&gt;", "gt-named"),
    (">", "&#62;", "gt-decimal"),
    ("&lt;", "&amp;lt;", "entity-text-encoded-once"),
    ("&amp;", "&amp;amp;", "entity-text-encoded-once"),
    ("&nbsp;", "&amp;nbsp;", "entity-text-encoded-once"),
    ("&apos;", "&amp;apos;", "entity-text-encoded-once"),
    ("&quot;", "&amp;quot;", "entity-text-encoded-once"),
    ("&gt;", "&amp;gt;", "entity-text-encoded-once"),
    ("&eacute;", "&amp;eacute;", "entity-text-encoded-once"),
    ("<x>", "&lt;x&gt;", "markup-text-named"),
    ("<x>y", "&#60;x&#62;y", "markup-text-decimal"),
    ("<i>", "&#x3c;i&#x3e;", "markup-text-hex"),
    ("<b>x</b>", "&lt;b&gt;x&lt;/b&gt;", "known-tag-text-escaped"),
    ("<br>", "&lt;br&gt;", "known-tag-text-escaped"),
    ("a&lt;", "a&#38;lt;", "entity-text-decimal"),
    ('"', "&quot;", "quot"),
    ("'", "&apos;", "apos-named"),
    (E_ACUTE, "&eacute;", "nonascii-named"),
    ("\u00c9COLE", "&Eacute;COLE", "nonascii-named-capital"),
    ("MA\u00d1ANA", "MA&Ntilde;ANA", "nonascii-named-capital"),
    ("\u03a9", "&Omega;", "nonascii-named-capital"),
    ("\u03c9", "&omega;", "nonascii-named"),
    (E_ACUTE, "&#233;", "nonascii-decimal"),
    (E_ACUTE, E_ACUTE, "nonascii-literal"),
    ("x" + NB + "y", "x&nbsp;y", "nbsp"),
    ("it", "<i>it</i>", "tag"),
    ("bo", "<b>bo</b>", "tag"),
    ("un", "<u>un</u>", "tag"),
    ("sp", '<span style="font-style:italic;">sp</span>', "tag"),
    ("fo", '<font color="#ff0000">fo</font>', "tag"),
    ("ab", "a<!-- note -->b", "comment"),
    ("word", "<!--x-->word<!-- a b -->", "comment"),
]
VTT_PIECES = [
    ("word", "word", "plain"),
    ("two", "two", "plain"),
    ("&", "&amp;", "amp-named"),
    ("<", "&lt;", "lt-named"),
    (">", "&gt;", "gt-named"),
    (">", ">", "gt-literal"),
    ("&lt;", "&amp;lt;", "entity-text-encoded-once"),
    ("&amp;", "&amp;amp;", "entity-text-encoded-once"),
    ("&gt;", "&amp;gt;", "entity-text-encoded-once"),
    ("&nbsp;", "&amp;nbsp;", "entity-text-encoded-once"),
    ("&lrm;", "&amp;lrm;", "entity-text-encoded-once"),
    ("&rlm;", "&amp;rlm;", "entity-text-encoded-once"),
    ("x" + NB + "y", "x&nbsp;y", "nbsp"),
    ("a\u200eb", "a&lrm;b", "lrm"),
    ("a\u200fb", "a&rlm;b", "rlm"),
    ("<i>x</i>", "&lt;i&gt;x&lt;/i&gt;", "known-tag-text-escaped"),
    ("a <b and b> c", "a &lt;b and b&gt; c", "known-tag-text-escaped"),
    ("<v Bob> hi", "&lt;v Bob&gt; hi", "known-tag-text-escaped"),
    ("<00:00:01.000>", "&lt;00:00:01.000&gt;", "known-tag-text-escaped"),
    ("<c>", "&lt;c&gt;", "known-tag-text-escaped"),
    ("it", "<i>it</i>", "tag"),
    ("bo", "<b>bo</b>", "tag"),
    ("un", "<u>un</u>", "tag"),
    ("cl", "<c.yellow>cl</c>", "tag-class"),
    ("rb", "<ruby>r<rt>b</rt></ruby>", "tag-ruby"),
    ("la", "<lang en-GB>la</lang>", "tag-lang"),
    ("ts", "t<00:00:01.500>s", "tag-timestamp"),
    ("Bob: hi", "<v Bob>hi</v>", "voice"),
    ("Ann B: yo", "<v.loud Ann B>yo", "voice-class"),
    ("Esme: Hi", "<v.first.loud Esme>Hi", "voice-two-classes"),
    ("Al: x", "<v.a.b.c Al>x</v>", "voice-two-classes"),
    ("<bold>x</bold>", "<bold>x</bold>", "unknown-tag-b-prefix"),
    ("<center>x", "<center>x", "unknown-tag-c-prefix"),
    ("<video>", "<video>", "unknown-tag-v-prefix"),
    ("<x>y</x>", "<x>y</x>", "unknown-tag"),
    ("<b-side>", "<b-side>", "unknown-tag-known-prefix-then-punctuation"),
    ("<i-beam>x", "<i-beam>x", "unknown-tag-known-prefix-then-punctuation"),
    ("<u-turn>", "<u-turn>", "unknown-tag-known-prefix-then-punctuation"),
    ("<v-neck>", "<v-neck>", "unknown-tag-known-prefix-then-punctuation"),
    ("<c-3po>", "<c-3po>", "unknown-tag-known-prefix-then-punctuation"),
    ("<lang-tag>", "<lang-tag>", "unknown-tag-known-prefix-then-punctuation"),
    ("<rt/2>", "<rt/2>", "unknown-tag-known-prefix-then-punctuation"),
    ("<ruby_red>", "<ruby_red>", "unknown-tag-known-prefix-then-punctuation"),
]
LITERAL_PIECES = [
    ("word", "word", "plain"),
    ("two", "two", "plain"),
    ("&", "&", "amp"),
    ("<", "<", "lt"),
    (">", ">", "gt"),
    ("&amp;", "&amp;", "entity-text-literal"),
    ("&#65;", "&#65;", "entity-text-literal"),
    ('"q"', '"q"', "quot"),
    ("it's", "it's", "apos"),
    (E_ACUTE, E_ACUTE, "nonascii"),
    ("{y:i}", "{y:i}", "brace"),
    ("12", "12", "digits"),
]
PIECES = {"dfxp": DFXP_PIECES, "sami": SAMI_PIECES, "webvtt": VTT_PIECES, "srt": LITERAL_PIECES, "microdvd": LITERAL_PIECES}
BREAKS = {"dfxp": ["<br/>", "<br />", "<br></br>", "<br/>\n      "], "sami": ["<br>", "<br/>", "<BR>", "<br />\n"], "webvtt": ["\n"], "srt": ["\n"], "microdvd": ["|"]}
JOINS = {"dfxp": [" ", "\n        ", ""], "sami": [" ", "\n   ", ""], "webvtt": [" ", ""], "srt": [" "], "microdvd": [" "]}
ADJ = {"dfxp": 2, "sami": 2, "webvtt": 1}  # index of the "" join: an inline tag that starts or ends inside a word


def bounds(tier):
    return {"pieces_per_line": 2 if tier == "quick" else 3, "max_lines": 3, "piece_alphabet_sizes": {k: len(v) for k, v in PIECES.items()}}


def make_doc(fmt, captions, brk, wrap_first=False):
    """captions: list of list of encoded lines"""
    if fmt == "srt":
        cues = [(docs.clock((i * 3 + 1) * 1000000, frac_sep=","), docs.clock((i * 3 + 2) * 1000000, frac_sep=","), lines) for i, lines in enumerate(captions)]
        return docs.srt_doc(cues)
    if fmt == "webvtt":
        cues = [(docs.clock((i * 3 + 1) * 1000000), docs.clock((i * 3 + 2) * 1000000), "", lines) for i, lines in enumerate(captions)]
        return docs.vtt_doc(cues)
    if fmt == "microdvd":
        return docs.microdvd_doc([(i * 75 + 25, i * 75 + 50, brk.join(lines)) for i, lines in enumerate(captions)])
    if fmt == "dfxp":
        ps = []
        for i, lines in enumerate(captions):
            inner = brk.join(lines)
            if wrap_first:
                inner = "\n      " + inner + "\n    "
            ps.append((f'begin="00:00:0{i * 3 + 1}.000" end="00:00:0{i * 3 + 2}.000"', inner))
        return docs.dfxp_doc([("en", ps)], head='<styling><style xml:id="s1" tts:color="red"/></styling>')
    if fmt == "sami":
        syncs = []
        for i, lines in enumerate(captions):
            inner = brk.join(lines)
            if wrap_first:
                inner = "\n    " + inner + "\n  "
            syncs.append(((i * 3 + 1) * 1000, [("en-US", inner)]))
            syncs.append(((i * 3 + 2) * 1000, [("en-US", "&nbsp;")]))
        return docs.sami_doc(syncs, ["en-US"])
    raise ValueError(fmt)


def read(fmt, doc):
    import pycaption

    r = {"srt": pycaption.SRTReader, "webvtt": pycaption.WebVTTReader, "microdvd": pycaption.MicroDVDReader, "dfxp": pycaption.DFXPReader, "sami": pycaption.SAMIReader}[fmt]
    cs = shared.obj(r).read(doc)
    lang = cs.get_languages()[0]
    out = []
    for c in cs.get_captions(lang):
        lines, cur = [], ""
        for n in c.nodes:
            if n.type_ == 1:
                cur += n.content
            elif n.type_ == 3:
                lines.append(cur)
                cur = ""
        lines.append(cur)
        out.append([parsers.norm_line(l) for l in lines])
        # the public text accessor must say the same as the nodes
        via_get_text = [parsers.norm_line(l) for l in c.get_text().split("\n")]
        if via_get_text != out[-1]:
            out[-1] = ["get_text() disagrees with the nodes: " + repr(via_get_text) + " / " + repr(out[-1])]
    return out


def evaluate_raw(fmt, captions_pieces, brk_i, join_i, wrap_first):
    """captions_pieces: list (captions) of list (lines) of list of piece indexes"""
    P = PIECES[fmt]
    brk = BREAKS[fmt][brk_i]
    # join_i: one join for every gap of a line, or a list of joins used gap by gap (cyclically)
    joins = [JOINS[fmt][j] for j in (join_i if isinstance(join_i, (list, tuple)) else [join_i])]
    enc_caps, want = [], []
    classes = set()
    for cap in captions_pieces:
        el, wl = [], []
        for line in cap:
            enc = ""
            disp = ""
            for k, i in enumerate(line):
                if k:
                    j = joins[(k - 1) % len(joins)]
                    enc += j
                    disp += "" if j == "" else " "
                    if j == "":
                        classes.add("tag-inside-a-word")
                    elif j != " ":
                        # a line end next to an inline element and a line end inside running text are different situations
                        inline = {"span", "nested-span", "tag"}
                        classes.add("source-line-wrap-next-to-inline-element" if (P[i][2] in inline or P[line[k - 1]][2] in inline) else "source-line-wrap-within-text")
                enc += P[i][1]
                disp += P[i][0]
            el.append(enc)
            wl.append(parsers.norm_line(disp))
            classes |= {P[i][2] for i in line if P[i][2] != "plain"}
        enc_caps.append(el)
        want.append(wl)
    if wrap_first:
        classes.add("indented-block")
    if len(captions_pieces[0]) > 1:
        classes.add("break:" + brk.strip() if brk.strip() else "break:newline")
    doc = make_doc(fmt, enc_caps, brk, wrap_first)
    klass = "+".join(sorted(classes)) or "plain"
    try:
        got = read(fmt, doc)
    except Exception as e:  # noqa
        return [(f"C04/{fmt}/raises:{type(e).__name__}/{klass}", {"err": str(e)[:200], "doc": doc[-500:]})], "raises"
    if got != want:
        kind = "caption-count" if len(got) != len(want) else ("line-count" if [len(c) for c in got] != [len(c) for c in want] else "text-differs")
        if kind == "text-differs" and [[l.replace(" ", "") for l in c] for c in got] == [[l.replace(" ", "") for l in c] for c in want]:
            kind = "words-merged"  # all characters are there, only a word separation was lost
        return [(f"C04/{fmt}/{kind}/{klass}", {"got": got, "want": want, "doc": doc[-600:]})], kind
    return [], tuple(tuple(c) for c in want)


def _kind(sig):
    return sig.split("/")[2]


def evaluate(fmt, caps, brk_i, join_i, wrap):
    v, out = evaluate_raw(fmt, caps, brk_i, join_i, wrap)
    if not v:
        return v, out
    kind = _kind(v[0][0])
    cur = ([[list(l) for l in c] for c in caps], brk_i, join_i, wrap)

    classes0 = set(v[0][0].split("/", 3)[3].split("+"))

    def still(c):
        # same failure kind, and no input class the original case did not have (a smaller case must not wander into a
        # different defect, e.g. by moving a line end next to an inline element)
        r, _ = evaluate_raw(fmt, *c)
        return bool(r) and _kind(r[0][0]) == kind and set(r[0][0].split("/", 3)[3].split("+")) <= classes0

    changed = True
    while changed:
        changed = False
        caps_, b_, j_, w_ = cur
        cands = []
        if w_:
            cands.append((caps_, b_, j_, False))
        if j_:
            cands.append((caps_, b_, 0, w_))
        if b_:
            cands.append((caps_, 0, j_, w_))
        if len(caps_) > 1:
            for i in range(len(caps_)):
                cands.append((caps_[:i] + caps_[i + 1 :], b_, j_, w_))
        for ci, c in enumerate(caps_):
            if len(c) > 1:
                for li in range(len(c)):
                    cands.append((caps_[:ci] + [c[:li] + c[li + 1 :]] + caps_[ci + 1 :], b_, j_, w_))
            for li, l in enumerate(c):
                if len(l) > 1:
                    for pi in range(len(l)):
                        cands.append((caps_[:ci] + [c[:li] + [l[:pi] + l[pi + 1 :]] + c[li + 1 :]] + caps_[ci + 1 :], b_, j_, w_))
                for pi, piece in enumerate(l):
                    if piece != 0:
                        cands.append((caps_[:ci] + [c[:li] + [l[:pi] + [0] + l[pi + 1 :]] + c[li + 1 :]] + caps_[ci + 1 :], b_, j_, w_))
        for c in cands:
            if still(c):
                cur = c
                changed = True
                break
    v2, _ = evaluate_raw(fmt, *cur)
    sig, det = v2[0]
    det = dict(det, minimised={"caps": cur[0], "brk": cur[1], "join": cur[2], "wrap": cur[3]})
    return [(sig, det)], out


def line_seqs(n_pieces, max_len):
    for ln in range(1, max_len + 1):
        yield from itertools.product(range(n_pieces), repeat=ln)


def reuse_items():
    items = []
    for i in range(40):
        for fmt in PIECES:
            n = len(PIECES[fmt])
            caps = [[[(i * 3) % n, (i * 7 + 1) % n]]] if i % 2 else [[[(i * 5) % n], [(i + 2) % n]], [[(i * 11) % n]]]
            items.append((fmt, caps, i % len(BREAKS[fmt]), (i // 2) % len(JOINS[fmt]), bool(i % 5 == 0) and fmt in ("dfxp", "sami")))
    return items


def reuse_between():
    """every shared reader is given a document it rejects half-way between judged reads"""
    import pycaption

    R = {"srt": pycaption.SRTReader, "webvtt": pycaption.WebVTTReader, "microdvd": pycaption.MicroDVDReader, "dfxp": pycaption.DFXPReader, "sami": pycaption.SAMIReader}
    for fmt, doc in docs.REJECTED.items():
        try:
            shared.obj(R[fmt]).read(doc)
        except Exception:  # noqa
            pass


def reuse_eval(item):
    return evaluate_raw(*item)


def shards(tier, seed):
    sh = [{"k": "reuse", "fmt": "srt"}]
    b = bounds(tier)
    for fmt in PIECES:
        n = len(PIECES[fmt])
        parts = 1 if fmt in ("srt", "microdvd", "webvtt") else (4 if tier == "quick" else 16)
        for p in range(parts):
            sh.append({"k": "single", "fmt": fmt, "n": b["pieces_per_line"], "part": p, "nparts": parts})
        sh.append({"k": "multi", "fmt": fmt})
    return sh


def run_shard(d):
    acc = Acc()
    if d["k"] == "reuse":
        shared.run(acc, reuse_items(), reuse_eval, between=reuse_between, sample=lambda it: {"reuse_run_step": list(it)})
        return acc.result()
    fmt = d["fmt"]
    P = PIECES[fmt]

    def run(caps, brk_i=0, join_i=0, wrap=False):
        v, out = evaluate(fmt, caps, brk_i, join_i, wrap)
        acc.case((fmt, caps, brk_i, join_i, wrap), True, out, {"format": fmt, "captions": [[[P[i][1] for i in l] for l in c] for c in caps], "break": BREAKS[fmt][brk_i], "join": [JOINS[fmt][j] for j in join_i] if isinstance(join_i, (list, tuple)) else JOINS[fmt][join_i]})
        for sig, det in v:
            acc.violation(sig, {"fmt": fmt, "caps": caps, "brk": brk_i, "join": join_i, "wrap": wrap}, det)

    if d["k"] == "single":
        for i, seq in enumerate(line_seqs(len(P), d["n"])):
            if i % d["nparts"] != d["part"]:
                continue
            for join_i in range(len(JOINS[fmt])):
                if join_i and len(seq) < 2:
                    continue
                if JOINS[fmt][join_i] == "":
                    continue  # pieces directly adjacent: only plain text next to an inline tag (family below)
                run([[list(seq)]], 0, join_i)
            if len(seq) == 1 and fmt in ("dfxp", "sami"):
                run([[list(seq)]], 0, 0, True)
    else:
        # multi-line / multi-caption over a reduced alphabet: first 3 plain/entity pieces + every tag/voice piece
        red = [i for i, p in enumerate(P) if p[2] in ("plain", "amp-named", "amp", "lt-named", "lt", "span", "tag", "voice", "unknown-tag", "entity-text-encoded-once")][:7]
        for nl in (2, 3):
            for lines in itertools.product(red, repeat=nl):
                for brk_i in range(len(BREAKS[fmt])):
                    run([[[i] for i in lines]], brk_i, 0)
                    if fmt in ("dfxp", "sami") and nl == 2:
                        run([[[i] for i in lines]], brk_i, 0, True)
        if len(JOINS[fmt]) > 1:
            # text wrapped over source lines with an inline element (or any other piece) on the same line: every
            # placement of one line end and one blank among three pieces
            for a in range(len(P)):
                for pat in ([1, 0], [0, 1]):
                    run([[[0, 1, a]]], 0, pat)
                    run([[[a, 0, 1]]], 0, pat)
                    run([[[0, a, 1]]], 0, pat)
        if fmt in ADJ:
            # an inline tag that starts or ends inside a word: Abso<i>lutely</i>, H<i>2</i>O
            for a in [i for i, p_ in enumerate(P) if p_[2] in ("span", "nested-span", "tag", "tag-class", "tag-lang", "tag-ruby")]:
                run([[[0, a]]], 0, ADJ[fmt])
                run([[[a, 0]]], 0, ADJ[fmt])
                run([[[0, a, 1]]], 0, ADJ[fmt])
                run([[[0, a, 1]], [[a, 1]]], 0, [ADJ[fmt], 0])
        for a in red:
            for b in red:
                run([[[a, 0]], [[b], [1]]], 0, 0)
                for join_i in range(1, len(JOINS[fmt])):
                    if JOINS[fmt][join_i] == "":
                        continue
                    run([[[a, 0], [b, 1]]], 0, join_i)
                    run([[[a, 0, b]], [[1, b]]], 0, join_i, True)
    return acc.result()


def replay(case):
    if case.get("reuse"):
        return shared.replay(reuse_items(), reuse_eval, case["index"], between=reuse_between)
    v, _ = evaluate(case["fmt"], case["caps"], case["brk"], case["join"], case["wrap"])
    return [{"sig": s, "detail": d} for s, d in v]
