"""C19  Timing adjustment and concurrent-caption merging keep all text in order.

E2 / explicit-state: BFS over operation sequences {merge, adjust(skew, offset)} applied to the real
CaptionSet, in lock-step with a reference model (lists of (start, end, nodes) in exact arithmetic).
Initial states: every caption list of length 0..N whose timespans are drawn from 3 values (all 3^n run
patterns), one or two languages.  States are deduplicated by the canonical dump of the real set.
"""
import copy
import itertools
from fractions import Fraction

from mc.acc import Acc

ID = "C19"
LEVEL = "model_checking"
RULE = (
    "initial states: all 3^n timespan patterns for n<=N (x second-language variants); transitions: merge and "
    "adjust(skew,offset) over the skew/offset grid, depth<=D; a state is the canonical dump of the real CaptionSet; "
    "non-trivial = initial list non-empty"
)
ASSUMPTIONS = [
    "skew/offset values outside the grid and lists longer than the bound are not explored",
    "times that are mathematically non-integers (skew 1.001) are compared within 1e-3 us; exact otherwise",
    "a caption whose exact new start lies within 1e-3 us of zero without being zero is a don't-care for the drop rule",
]
TRUSTED = ["fractions.Fraction", "copy.deepcopy"]
MANIFEST = {
    "technique": "explicit-state BFS over operation sequences (merge / adjust) on the real CaptionSet from every initial caption list of bounded length, reference list model in lock-step",
    "text": "All run patterns of equal timespans up to the length bound and all operation sequences up to the depth bound are executed on the real functions; every reached state is compared with an exact-arithmetic list model.",
    "note": "Bounds: list length, 3 timespan values, skew/offset grid, depth. Float rounding of non-integer skews is tolerated to 1e-3 microseconds.",
}

# span 3 differs from span 0 by less than a millisecond at both ends (never "identical"); it only occurs in the
# patterns of NEAR (the main enumeration is over spans 0-2)
# span 4 starts at time zero
# spans 5 and 6 share only the start / only the end with span 0
# the last two: an hour into the programme and one microsecond apart at both ends (different spans, however small the
# difference is relative to the values)
SPANS = [(1000000, 2000000), (2000000, 3500000), (4000000, 4000001), (1000400, 2000300), (0, 1000000), (1000000, 3000000), (500000, 2000000),
         (3600000000, 3601000000), (3600000001, 3601000001)]
NEAR = [(0, 5), (5, 0), (0, 6), (6, 0), (0, 5, 0), (6, 0, 5), (0, 0, 5), (5, 5, 0), (4,), (4, 4), (4, 0), (4, 4, 1), (4, 4, 4), (0, 4, 4), (4, 1, 4, 4), (0, 3), (3, 0), (3, 3), (0, 3, 0), (0, 0, 3), (3, 0, 0), (3, 3, 0), (1, 0, 3), (0, 3, 1), (0, 3, 3, 0), (2, 3, 0, 1), (0, 3, 0, 3, 0),
        (7, 8), (8, 7), (7, 7, 8), (7, 8, 8), (7, 8, 7), (0, 7, 8), (8,)]
SKEWS = [0.5, 1, 1.001, 4]
OFFSETS = ["-10s", "-first", "-1us", "0", "+1s"]


def bounds(tier):
    return {"max_len": 5 if tier == "quick" else 7, "depth": 2 if tier == "quick" else 3, "spans": SPANS, "skews": SKEWS, "offsets": OFFSETS}


# ---------------------------------------------------------------------------------------------
def build(patterns):
    """patterns: dict lang -> tuple of span indexes. returns (real CaptionSet, model)"""
    from pycaption import Caption, CaptionList, CaptionNode, CaptionSet

    caps = {}
    model = {}
    first_lang_nodes = []
    for lang, pat in patterns:
        if lang == "alias":
            # a second language that holds the very Caption objects of the first one (set_captions("gb", CaptionList(
            # cs.get_captions("en")))): every caption is still re-timed exactly once
            first = patterns[0][0]
            caps[lang] = CaptionList(list(caps[first]))
            model[lang] = list(model[first])
            continue
        cl = CaptionList()
        ml = []
        for i, k in enumerate(pat):
            s, e = SPANS[k]
            if i % 4 == 3:
                # a caption that displays nothing: a blank text node, or only an opened and closed style
                nodes = [CaptionNode.create_text(" ")] if (i // 4) % 2 == 0 else [CaptionNode.create_style(True, {"italics": True}), CaptionNode.create_style(False, {"italics": True})]
            elif i % 3 == 2:
                nodes = [
                    CaptionNode.create_style(True, {"italics": True}),
                    CaptionNode.create_text(f"{lang}{i}a"),
                    CaptionNode.create_style(False, {"italics": True}),
                    CaptionNode.create_break(),
                    CaptionNode.create_text(f"{lang}{i}b"),
                ]
            elif i % 3 == 1:
                # ends with a line break (readers return such captions, e.g. DFXP <p>speaker:<br/></p>)
                nodes = [CaptionNode.create_text(f"{lang}{i}a"), CaptionNode.create_break(), CaptionNode.create_text(f"{lang}{i}b"), CaptionNode.create_break()]
            else:
                nodes = [CaptionNode.create_text(f"{lang}{i}")]
            if lang != patterns[0][0] and i < len(first_lang_nodes):
                # an untranslated line: the second language's caption is backed by the very node list of the first one's
                nodes = first_lang_nodes[i]
            elif lang == patterns[0][0]:
                first_lang_nodes.append(nodes)
            cl.append(Caption(s, e, nodes))
            ml.append((Fraction(s), Fraction(e), tuple(node_val(n) for n in nodes)))
        caps[lang] = cl
        model[lang] = ml
    return CaptionSet(caps), model


def node_val(n):
    c = n.content
    if isinstance(c, dict):
        c = tuple(sorted(c.items()))
    return (n.type_, c, n.start)


BREAK = (3, None, None)


def ref_merge(model):
    out = {}
    for lang, ml in model.items():
        res = []
        for c in ml:
            if res and (res[-1][0], res[-1][1]) == (c[0], c[1]):
                res[-1] = (c[0], c[1], res[-1][2] + (BREAK,) + c[2])
            else:
                res.append(c)
        out[lang] = res
    return out


def srt_merge_check(cs, model, patterns):
    """SRTWriter merges runs of concurrent captions itself: every maximal run must come out as one cue that carries the
    visible text of all its captions in order (same reference as merge_concurrent_captions)"""
    from pycaption import SRTWriter

    from mc.ref import parsers

    lang = cs.get_languages()[0]
    want = []
    for s_, e_, nodes in ref_merge({lang: model[lang]})[lang]:
        lines, cur = [], ""
        for t_, c_, _st in nodes:
            if t_ == 1:
                cur += c_
            elif t_ == 3:
                lines.append(cur)
                cur = ""
        lines.append(cur)
        lines = [parsers.norm_line(l) for l in lines if parsers.norm_line(l)]
        if lines:
            want.append(lines)
    if not want:
        return []
    try:
        cues = parsers.parse_srt(SRTWriter().write(copy.deepcopy(cs)))
    except Exception as e:  # noqa
        return [(f"C19/srt-writer-merge/raises:{type(e).__name__}", str(e)[:200])]
    got = [[parsers.norm_line(l) for l in c["lines"] if parsers.norm_line(l)] for c in cues]
    got = [g for g in got if g]
    if got != want:
        return [("C19/srt-writer-merge/run-text-lost-or-reordered", {"got": got, "want": want})]
    return []


def _want_lines(merged):
    from mc.ref import parsers

    want = []
    for s_, e_, nodes in merged:
        lines, cur = [], ""
        for t_, c_, _st in nodes:
            if t_ == 1:
                cur += c_
            elif t_ == 3:
                lines.append(cur)
                cur = ""
        lines.append(cur)
        want.append([parsers.norm_line(l) for l in lines if parsers.norm_line(l)])
    return want


def dfxp_merge_check(cs, model):
    """the two DFXP writers that merge concurrent captions (single-positioning, legacy): in every language, every maximal
    run comes out as one p that carries the text of all its captions in order - whichever language the run is in"""
    from pycaption.dfxp import extras

    from mc.ref import parsers

    want_all = {lang: _want_lines(ml) for lang, ml in ref_merge(model).items()}
    langs = list(want_all)
    out = []
    for name in ("SinglePositioningDFXPWriter", "LegacyDFXPWriter"):
        # force: none | the last language | the first one | a language the set does not have (the legacy writer then
        # writes the last language, the single-positioning writer all of them)
        for force in (None, "last", "first", "missing"):
            kw = {} if force is None else {"force": {"last": langs[-1], "first": langs[0], "missing": "xx-XX"}[force]}
            if force in ("last", "first"):
                written = [kw["force"]]
            elif force == "missing" and name == "LegacyDFXPWriter":
                written = [langs[-1]]
            else:
                written = langs
            want = {l: want_all[l] for l in written}
            fx = "" if force is None else f"/force-{force}-language"
            try:
                t = parsers.parse_ttml(getattr(extras, name)().write(copy.deepcopy(cs), **kw))
            except Exception as e:  # noqa
                out.append((f"C19/{name}-merge/raises:{type(e).__name__}{fx}", str(e)[:200]))
                continue
            got = {}
            for d in t["divs"]:
                got.setdefault(d["lang"], []).extend([[parsers.norm_line(l) for l in p_["lines"] if parsers.norm_line(l)] for p_ in d["ps"]])
            if {k: v for k, v in got.items() if v} != {k: v for k, v in want.items() if v}:
                bad = sorted(l for l in set(got) | set(want) if got.get(l, []) != want.get(l, []))
                first_has_run = len(want_all[langs[0]]) != len(model[langs[0]])
                out.append((f"C19/{name}-merge/run-not-merged-or-text-lost" + ("" if first_has_run or len(want_all) == 1 else "/run-only-in-a-later-language") + fx, {"languages": bad, "got": got, "want": want}))
    return out


def _dyadic(fr):
    d = fr.denominator
    return d & (d - 1) == 0 and d <= 2 ** 20 and abs(fr.numerator) < 2 ** 52


def ref_adjust(model, skew, offset):
    out = {}
    dontcare = False
    for lang, ml in model.items():
        res = []
        for s, e, n in ml:
            ns, ne = s * skew + offset, e * skew + offset
            if abs(ns) < Fraction(1, 1000) and (ns != 0 or not (_dyadic(s) and _dyadic(skew) and _dyadic(offset))):
                # float arithmetic is not exact here: the sign of a (near-)zero start is a don't-care
                dontcare = True
            if ns >= 0:
                res.append((ns, ne, n))
        out[lang] = res
    return out, dontcare


def snapshot(cs):
    out = []
    for lang in cs.get_languages():
        out.append((lang, tuple((c.start, c.end, tuple(node_val(n) for n in c.nodes)) for c in cs.get_captions(lang))))
    return tuple(out)


def time_eq(real, exact):
    if isinstance(real, bool) or not isinstance(real, (int, float)):
        return False
    if exact.denominator == 1:
        return real == int(exact)
    return abs(Fraction(real) - exact) <= Fraction(1, 1000)


def compare(cs, model, patterns, hist):
    """returns list of (sig, detail)"""
    v = []
    langs = cs.get_languages()
    if langs != list(model.keys()):
        return [("C19/languages-changed", {"got": langs, "want": list(model.keys())})]
    opn = hist[-1][0] if hist else "init"
    for lang in langs:
        real = list(cs.get_captions(lang))
        want = model[lang]
        if len(real) != len(want):
            v.append((f"C19/{opn}/caption-count", {"lang": lang, "got": len(real), "want": len(want)}))
            continue
        for i, (c, w) in enumerate(zip(real, want)):
            if not (time_eq(c.start, w[0]) and time_eq(c.end, w[1])):
                v.append((f"C19/{opn}/times", {"lang": lang, "i": i, "got": [c.start, c.end], "want": [str(w[0]), str(w[1])]}))
                break
            nv = tuple(node_val(n) for n in c.nodes)
            if nv != w[2]:
                v.append((f"C19/{opn}/nodes", {"lang": lang, "i": i, "got": repr(nv)[:300], "want": repr(w[2])[:300]}))
                break
    return v


def op_menu(model, tier_depth):
    first = None
    for ml in model.values():
        if ml:
            first = ml[0][0]
            break
    ops = [("merge",)]
    for sk in SKEWS:
        for off in OFFSETS:
            ops.append(("adjust", sk, off))
    return ops


def resolve_offset(off, model, skew):
    if off == "-10s":
        return Fraction(-10000000)
    if off == "-1us":
        return Fraction(-1)
    if off == "0":
        return Fraction(0)
    if off == "+1s":
        return Fraction(1000000)
    # -first: makes the earliest start of the first non-empty language exactly zero
    firsts = [c[0] for ml in model.values() for c in ml]
    if not firsts:
        return Fraction(0)
    return -min(firsts) * skew


def apply_real(cs, op, model):
    """Applies op to the real set; returns (new_set, identity_violation or None)"""
    from pycaption.base import merge_concurrent_captions

    if op[0] == "merge":
        before_nodes = {lang: [id(n) for c in cs.get_captions(lang) for n in c.nodes] for lang in cs.get_languages()}
        ret = merge_concurrent_captions(cs)
        ident = None
        for lang, ids in before_nodes.items():
            idset = set(ids)
            after = [id(n) for c in ret.get_captions(lang) for n in c.nodes if id(n) in idset]
            if after != ids:
                ident = ("C19/merge/node-objects-reordered-or-lost", {"lang": lang})
        return ret, ident
    skew = Fraction(op[1])
    offset = resolve_offset(op[2], model, skew)
    before = {lang: [(id(c), [id(n) for n in c.nodes], [node_val(n) for n in c.nodes]) for c in cs.get_captions(lang)] for lang in cs.get_languages()}
    # give the implementation plain numbers: int when integral else float
    o = int(offset) if offset.denominator == 1 else float(offset)
    cs.adjust_caption_timing(offset=o, rate_skew=op[1])
    ident = None
    for lang in cs.get_languages():
        surv = {id(c): c for c in cs.get_captions(lang)}
        order = [cid for cid, _, _ in before[lang] if cid in surv]
        if order != [id(c) for c in cs.get_captions(lang)]:
            ident = ("C19/adjust/survivors-not-the-original-captions-in-order", {"lang": lang})
        for cid, nids, nvals in before[lang]:
            if cid in surv and ([id(n) for n in surv[cid].nodes] != nids or [node_val(n) for n in surv[cid].nodes] != nvals):
                ident = ("C19/adjust/nodes-touched", {"lang": lang})
    return cs, ident


def explore(patterns, depth, acc):
    cs0, model0 = build(patterns)
    seen = {snapshot(cs0)}
    v = compare(cs0, model0, patterns, [])
    for sig, det in v:
        acc.violation(sig, {"patterns": patterns, "ops": []}, det)
    visible = lambda nodes: any(t_ == 1 and c_.strip() for t_, c_, _s in nodes)  # noqa: E731
    if len(model0) == 1 and all(0 <= s_ <= e_ and visible(n_) for _, ml in model0.items() for s_, e_, n_ in ml):
        for sig, det in srt_merge_check(cs0, model0, patterns):
            acc.violation(sig, {"patterns": patterns, "ops": [], "srt": True}, det)
    if model0 and all(0 <= s_ < e_ and visible(n_) for _, ml in model0.items() for s_, e_, n_ in ml) and any(ml for ml in model0.values()):
        for sig, det in dfxp_merge_check(cs0, model0):
            acc.violation(sig, {"patterns": patterns, "ops": [], "dfxp": True}, det)
    acc.states += 1
    frontier = [([], cs0, model0)]
    for d in range(depth):
        nxt = []
        for hist, cs, model in frontier:
            for op in op_menu(model, depth):
                cs2 = copy.deepcopy(cs)
                try:
                    cs2, ident = apply_real(cs2, op, model)
                except Exception as e:  # noqa
                    acc.violation(f"C19/{op[0]}/raises:{type(e).__name__}", {"patterns": patterns, "ops": hist + [list(op)]}, str(e)[:200])
                    continue
                if op[0] == "merge":
                    model2, dc = ref_merge(model), False
                else:
                    sk = Fraction(op[1])
                    model2, dc = ref_adjust(model, sk, resolve_offset(op[2], model, sk))
                acc.transitions += 1
                acc.traces += 1
                h2 = hist + [list(op)]
                acc.case((patterns, h2), bool(patterns and any(p for _, p in patterns)), None, {"lists": patterns, "ops": h2} if len(h2) == depth else None)
                if dc:
                    acc.count("dont_care_near_zero")
                    continue
                if ident:
                    acc.violation(ident[0], {"patterns": patterns, "ops": h2}, ident[1])
                for sig, det in compare(cs2, model2, patterns, h2):
                    acc.violation(sig, {"patterns": patterns, "ops": h2}, det)
                # idempotence of merge: merge again must change nothing
                if op[0] == "merge":
                    cs3 = copy.deepcopy(cs2)
                    from pycaption.base import merge_concurrent_captions

                    cs3 = merge_concurrent_captions(cs3)
                    if snapshot(cs3) != snapshot(cs2):
                        acc.violation("C19/merge/not-idempotent", {"patterns": patterns, "ops": h2}, None)
                k = snapshot(cs2)
                acc.outcomes.add(hash(k) & 0xFFFFFFFF) if len(acc.outcomes) < acc.MAX_OUTCOMES else None
                if k not in seen:
                    seen.add(k)
                    acc.states += 1
                    nxt.append((h2, cs2, model2))
        frontier = nxt


def all_patterns(maxlen):
    for n in range(0, maxlen + 1):
        for pat in itertools.product(range(3), repeat=n):
            yield pat


SECOND = [(), (0,), (0, 0, 1), (2, 0, 0)]


def shards(tier, seed):
    b = bounds(tier)
    sh = []
    sh.append({"n": -1, "lead": None, "depth": b["depth"], "maxlen": b["max_len"]})
    for n in range(0, b["max_len"] + 1):
        if n <= 3:
            sh.append({"n": n, "lead": None, "depth": b["depth"], "maxlen": b["max_len"]})
        else:
            for lead in itertools.product(range(3), repeat=2 if n <= 5 else 3):
                sh.append({"n": n, "lead": list(lead), "depth": b["depth"], "maxlen": b["max_len"]})
    return sh


def run_shard(d):
    acc = Acc()
    n = d["n"]
    depth = d["depth"]
    if n == -1:
        pats = list(NEAR)
        n = 3
    elif d["lead"] is None:
        pats = list(itertools.product(range(3), repeat=n))
    else:
        k = len(d["lead"])
        pats = [tuple(d["lead"]) + r for r in itertools.product(range(3), repeat=n - k)]
    for pat in pats:
        # depth shrinks for the longest lists in the thorough tier to keep the space finite and the run short
        dd = depth if n <= 5 else min(depth, 2)
        explore((("en", pat),), dd, acc)
        if n <= 3:
            for sec in SECOND:
                explore((("en", pat), ("fr", sec)), min(dd, 2), acc)
            if pat:
                explore((("en", pat), ("alias", ())), min(dd, 2), acc)
    return acc.result()


def replay(case):
    acc = Acc()
    patterns = tuple((l, tuple(p)) for l, p in case["patterns"])
    cs, model = build(patterns)
    out = []
    hist = []
    if case.get("srt"):
        return [{"sig": sig, "detail": det} for sig, det in srt_merge_check(cs, model, patterns)]
    if case.get("dfxp"):
        return [{"sig": sig, "detail": det} for sig, det in dfxp_merge_check(cs, model)]
    if not case["ops"]:
        return [{"sig": sig, "detail": det} for sig, det in compare(cs, model, patterns, [])]
    for op in case["ops"]:
        op = tuple(op)
        cs, ident = apply_real(cs, op, model)
        if op[0] == "merge":
            model, dc = ref_merge(model), False
        else:
            sk = Fraction(op[1])
            model, dc = ref_adjust(model, sk, resolve_offset(op[2], model, sk))
        hist.append(list(op))
        if ident:
            out.append({"sig": ident[0], "detail": ident[1]})
        if op[0] == "merge":
            from pycaption.base import merge_concurrent_captions

            if snapshot(merge_concurrent_captions(copy.deepcopy(cs))) != snapshot(cs):
                out.append({"sig": "C19/merge/not-idempotent", "detail": None})
        for sig, det in compare(cs, model, patterns, hist):
            out.append({"sig": sig, "detail": det})
    return out
