"""C02  Writing preserves every cue's start and end instant.

E3: caption sets of 3 captions over (base instant x duration x gap-shape) are written by each of the seven
time-emitting writers; the output is parsed by the independent parser of that format (mc.ref.parsers) and every
timing field compared with floor-to-resolution of the caption time computed in exact arithmetic.
"""
import itertools
from fractions import Fraction

from mc import shared
from mc.acc import Acc
from mc.ref import parsers

ID = "C02"
LEVEL = "exploration"
RULE = (
    "base instants = boundary grid (h x m x s x ms, < 24h) x sub-millisecond offsets {0,1,999}us + carry "
    "neighbourhoods + the fractional float instants the SCC reader produces; x durations x all 25 gap shapes between 3 "
    "captions (touch, +1us, +1ms, far, identical, identical to the first) x writers x option variants. distinct = distinct (writer, options, "
    "caption times); non-trivial = every case (each has 3 timed captions)"
)
ASSUMPTIONS = [
    "times >= 24h are outside the domain (pinned by tests/test_base.py)",
    "fractional (float) caption times: floor to resolution of t-0.5us, t and t+0.5us are all accepted (sub-microsecond float noise)",
    "captions carry plain text; escaping is C03's subject",
]
TRUSTED = ["mc.ref.parsers (independent parsers; lxml strict XML, html.parser)", "fractions.Fraction"]
MANIFEST = {
    "technique": "bounded-exhaustive enumeration of caption-time shapes x writers; oracle = independent parser of each output format + exact floor-to-resolution arithmetic",
    "text": "Every caption set of the grid is written by the real writers; timing fields are read back by parsers that share no code with pycaption and compared with exact truncation, including carries, integer formatting, the SAMI blank-sync rule and the allowed merge/split behaviours.",
    "note": "Instants outside the boundary grids are not covered; SAMI sync order for overlapping cues is judged only against the blank-sync rule as stated.",
}

H = [0, 1, 9, 10, 23]
M = [0, 1, 9, 10, 59]
S = [0, 1, 59]
MS = [0, 1, 9, 10, 99, 100, 999]
SUB = [0, 1, 999]
DURS = [1000000, 1500999, 0]
GAPS = ["touch", "+1us", "+1ms", "far", "same", "first", "near"]
WRITERS = ["SRTWriter", "WebVTTWriter", "MicroDVDWriter", "DFXPWriter", "SinglePositioningDFXPWriter", "LegacyDFXPWriter", "SAMIWriter"]
SLOW = {"DFXPWriter", "SinglePositioningDFXPWriter", "LegacyDFXPWriter", "SAMIWriter"}


def bounds(tier):
    return {"grid_instants": len(H) * len(M) * len(S) * len(MS) * len(SUB), "durations_us": DURS, "gap_shapes": len(GAPS) ** 2, "slow_writer_stride": 3 if tier == "quick" else 1}


def grid_instants():
    out = set()
    for h, m, s, ms, sub in itertools.product(H, M, S, MS, SUB):
        out.add((((h * 60 + m) * 60 + s) * 1000 + ms) * 1000 + sub)
    # carry neighbourhoods around second / minute / hour boundaries
    for b in (1000000, 60000000, 3600000000, 36000000000, 86399000000):
        for d in (-1001, -1000, -999, -1, 0, 1, 999, 1000):
            if 0 <= b + d:
                out.add(b + d)
    return sorted(out)


_scc_cache = None


def scc_instants():
    """fractional instants exactly as the SCC reader produces them"""
    global _scc_cache
    if _scc_cache is not None:
        return _scc_cache
    from pycaption import SCCReader

    vals = set()
    for sep in (":", ";"):
        for hh, mm, ss in ((0, 0, 1), (0, 59, 59), (1, 0, 0), (23, 59, 50)):
            lines = ["Scenarist_SCC V1.0", ""]
            for ff in range(0, 30, 7):
                for pad in (0, 3, 17):
                    tc = f"{hh:02d}:{mm:02d}:{ss:02d}{sep}{ff:02d}"
                    doc = "\n".join(lines + [tc + "\t94ae 94ae 9420 9420 9470 9470 " + "c8e9 " * pad + "942f 942f", "", f"{hh:02d}:{mm:02d}:{ss + 4:02d}{sep}{ff:02d}\t942c 942c", ""])
                    try:
                        cs = SCCReader().read(doc)
                    except Exception:  # noqa
                        continue
                    for c in cs.get_captions("en-US"):
                        for v in (c.start, c.end):
                            if isinstance(v, float) and v != int(v):
                                vals.add(v)
    vals = sorted(vals)
    # ... plus float instants a fraction of a microsecond away from a whole second / minute / hour (the reader yields such
    # values, e.g. 1000999999.9999999 for non-drop 00:16:40:00)
    near = [999999.9999999, 1999999.6, 2000000.4, 59999999.7, 60000000.25, 1000999999.9999999, 3599999999.9, 3600000000.2]
    _scc_cache = vals[:: max(1, len(vals) // 60)] + near
    return _scc_cache


def times_for(t, d, g1, g2):
    """three captions starting at t; all captions have duration d; gaps g1,g2"""
    caps = [(t, t + d)]
    for g in (g1, g2):
        ps, pe = caps[-1]
        if g == "same":
            caps.append((ps, pe))
            continue
        if g == "first":
            caps.append(caps[0])  # the first caption's timespan comes back (non-adjacent when a different one is between)
            continue
        if g == "near":
            caps.append((ps + 400, pe + 300))  # not identical, but both ends within the same millisecond (usually)
            continue
        if g == "touch":
            ns = pe
        elif g == "+1us":
            ns = pe + 1
        elif g == "+1ms":
            ns = pe + 1000
        else:
            ns = pe + 10000000
        caps.append((ns, ns + d))
    return caps


def build_set(times, layouts):
    from pycaption import Caption, CaptionList, CaptionNode, CaptionSet
    from pycaption.geometry import Layout, Padding, Point, Size, UnitEnum

    cl = CaptionList()
    P = UnitEnum.PERCENT
    for i, (s, e) in enumerate(times):
        if layouts and i == 1:
            # "c1a" and "c1a2" (and the breaks after them) share one layout (paddings different on every side; two equal objects, as
            # a reader builds them), "c1b" has another: WebVTT writes exactly two cues for this caption
            mk = lambda: Layout(origin=Point(Size(10, P), Size(10, P)), padding=Padding(before=Size(1, P), after=Size(2, P), start=Size(5, P), end=Size(10, P)))  # noqa: E731
            la, la2 = mk(), mk()
            lb = Layout(origin=Point(Size(20, P), Size(60, P)))
            nodes = [CaptionNode.create_text(f"c{i}a", layout_info=la), CaptionNode.create_break(layout_info=la), CaptionNode.create_text(f"c{i}a2", layout_info=la2), CaptionNode.create_break(layout_info=la2), CaptionNode.create_text(f"c{i}b", layout_info=lb)]
        else:
            nodes = [CaptionNode.create_text(f"c{i}")]
        cl.append(Caption(s, e, nodes))
    return CaptionSet({"en-US": cl})


def cands(x, scale_num, scale_den):
    """accepted values of floor(x * num / den); x int or float"""
    fx = Fraction(x)
    def fl(v):
        v = max(v, Fraction(0))
        q = v * scale_num / scale_den
        return q.numerator // q.denominator
    if fx.denominator == 1:
        return {fl(fx)}
    return {fl(fx - Fraction(1, 2)), fl(fx), fl(fx + Fraction(1, 2))}


def writer_obj(name, opt):
    import pycaption
    from pycaption.dfxp import extras

    cls = getattr(pycaption, name, None) or getattr(extras, name)
    kw = {}
    if opt == "norel" and name not in ("LegacyDFXPWriter",):
        kw = {"relativize": False, "fit_to_screen": False}
    elif opt == "video" and name not in ("LegacyDFXPWriter",):
        kw = {"video_width": 640, "video_height": 360}
    return shared.obj(cls, **kw)


def match_plain(parsed, exp):
    if len(parsed) != len(exp):
        return f"cue-count got {len(parsed)} want {len(exp)}"
    for i, (p, (cs, ce)) in enumerate(zip(parsed, exp)):
        if p[0] not in cs:
            return f"start cue {i}: got {p[0]} want {sorted(cs)}"
        if p[1] not in ce:
            return f"end cue {i}: got {p[1]} want {sorted(ce)}"
    return None


def evaluate(wname, opt, times, layouts):
    """returns (violations [(sig, detail)], outcome)"""
    v = []
    cs = build_set(times, layouts)
    w = writer_obj(wname, opt)
    try:
        if wname == "WebVTTWriter" and opt == "lang":
            doc = w.write(cs, lang="en-US")
        elif wname in ("DFXPWriter", "SinglePositioningDFXPWriter", "LegacyDFXPWriter") and opt == "force":
            doc = w.write(cs, force="en-US")
        else:
            doc = w.write(cs)
    except Exception as e:  # noqa
        return [(f"C02/{wname}/raises:{type(e).__name__}", {"err": str(e)[:200]})], "raises"
    ms = [(cands(s, 1, 1000), cands(e, 1, 1000)) for s, e in times]
    merged_idx = []
    for i, t in enumerate(times):
        if i and times[i - 1] == t:
            continue
        merged_idx.append(i)
    ms_merged = [ms[i] for i in merged_idx]
    try:
        if wname == "SRTWriter":
            parsed = [(c["start"], c["end"]) for c in parsers.parse_srt(doc)]
            err = match_plain(parsed, ms)
            if err and len(ms_merged) != len(ms):
                err = match_plain(parsed, ms_merged)
        elif wname == "WebVTTWriter":
            cues = parsers.parse_vtt(doc)
            parsed = [(c["start"], c["end"]) for c in cues]
            err = None
            k = 0
            for i, (cs_, ce_) in enumerate(ms):
                maxn = 2 if (layouts and i == 1) else 1
                n = 0
                while k < len(parsed) and n < maxn and parsed[k][0] in cs_ and parsed[k][1] in ce_:
                    # do not swallow the next caption's cue when times are identical
                    if n >= 1 and maxn == 1:
                        break
                    k += 1
                    n += 1
                if n == 0:
                    err = f"caption {i}: no cue with its times at position {k}: parsed={parsed} want={[(sorted(a), sorted(b)) for a, b in ms]}"
                    break
            if err is None and k != len(parsed):
                err = f"extra cues: parsed={parsed}"
        elif wname == "MicroDVDWriter":
            parsed = [(c["start"], c["end"]) for c in parsers.parse_microdvd(doc)]
            fr = [(cands(s, 25, 1000000), cands(e, 25, 1000000)) for s, e in times]
            # "{0}{0}" is the format's frame-rate declaration, not a cue: a caption that lies inside the first frame is
            # written as {0}{1} (the format cannot say it any closer)
            fr = [(cs_, (ce_ | {1}) if (0 in cs_ and 0 in ce_) else ce_) for cs_, ce_ in fr]
            err = match_plain(parsed, fr)
        elif wname in ("DFXPWriter", "SinglePositioningDFXPWriter", "LegacyDFXPWriter"):
            t = parsers.parse_ttml(doc)
            divs = [d_ for d_ in t["divs"] if d_["ps"] or d_["lang"] == "en-US"]  # a div without cues (language without captions) is not a cue
            if len(divs) != 1:
                err = f"{len(divs)} divs"
                parsed = [(p["start"], p["end"]) for d_ in divs for p in d_["ps"]]
            else:
                parsed = [(p["start"], p["end"]) for p in divs[0]["ps"]]
                if wname == "DFXPWriter":
                    err = match_plain(parsed, ms)
                else:
                    err = match_plain(parsed, ms)
                    if err and len(ms_merged) != len(ms):
                        err = match_plain(parsed, ms_merged)
        else:  # SAMI
            s = parsers.parse_sami(doc)
            got = []
            err = None
            for sy in s["syncs"]:
                raw = sy["start_raw"]
                if raw is None or not raw.isdigit():
                    err = f"sync start {raw!r} is not an integer millisecond count"
                    break
                for para in sy["ps"]:
                    got.append((int(raw), "blank" if parsers.sami_is_blank(para) else "text"))
            if err is None:
                ok = False
                wants = []
                for mode in (Fraction(0), Fraction(1, 2), Fraction(-1, 2)):
                    def msf(x):
                        fx = Fraction(x)
                        if fx.denominator != 1:
                            fx = max(Fraction(0), fx + mode)
                        return (fx / 1000).numerator // (fx / 1000).denominator
                    want = []
                    for i, (st, en) in enumerate(times):
                        want.append((msf(st), "text"))
                        if i + 1 < len(times) and msf(times[i + 1][0]) != msf(en):
                            want.append((msf(en), "blank"))
                    wants.append(want)
                    if want == got:
                        ok = True
                        break
                if not ok:
                    err = f"sync sequence got {got} want {wants[0]}"
            parsed = got
    except parsers.ParseError as e:
        return [(f"C02/{wname}/output-unparseable", {"err": str(e)[:300], "doc": doc[:300]})], "unparseable"
    if err:
        kind = err.split(":")[0].split(" ")[0]
        v.append((f"C02/{wname}/{kind}" + ("/fractional-time" if any(isinstance(x, float) for t in times for x in t) else ""), {"err": err, "times": times, "doc": doc[:500] if len(doc) < 3000 else doc[-700:]}))
    return v, tuple(parsed)


SHIFTS = [0, 250000, "touch", 30000000]


def evaluate_multi(wname, opt, times, shift, swap):
    """two languages; the second one's cues are the first one's shifted (coinciding / interleaved / touching / all later);
    swap: the shifted language comes first. Every language must keep exactly its own cue sequence (integer times)."""
    from pycaption import Caption, CaptionList, CaptionNode, CaptionSet

    sh = (times[0][1] - times[0][0]) if shift == "touch" else shift
    per = {"en-US": list(times), "fr-FR": [(a + sh, b + sh) for a, b in times]}
    order = ["fr-FR", "en-US"] if swap else ["en-US", "fr-FR"]
    cs = CaptionSet({l: CaptionList([Caption(a, b, [CaptionNode.create_text(f"{l[:2]}{i}")]) for i, (a, b) in enumerate(per[l])]) for l in order})
    w = writer_obj(wname, opt)
    try:
        doc = w.write(cs)
    except Exception as e:  # noqa
        return [(f"C02/{wname}/two-languages/raises:{type(e).__name__}", {"err": str(e)[:200]})], "raises"
    err = None
    try:
        if wname == "SAMIWriter":
            got = {l: [] for l in order}
            for sy in parsers.parse_sami(doc)["syncs"]:
                raw = sy["start_raw"]
                if raw is None or not raw.isdigit():
                    err = f"sync start {raw!r} is not an integer millisecond count"
                    break
                for para in sy["ps"]:
                    if para["class"] not in got:
                        err = f"paragraph of unknown class {para['class']!r}"
                        break
                    got[para["class"]].append((int(raw), "blank" if parsers.sami_is_blank(para) else "text"))
            for l in order:
                if err:
                    break
                want = []
                for i, (st, en) in enumerate(per[l]):
                    want.append((st // 1000, "text"))
                    if i + 1 < len(per[l]) and per[l][i + 1][0] // 1000 != en // 1000:
                        want.append((en // 1000, "blank"))
                if got[l] != want:
                    err = f"sync sequence of {l}: got {got[l]} want {want}"
            parsed = tuple(tuple(got[l]) for l in order)
        else:
            t = parsers.parse_ttml(doc)
            if [d_["lang"] for d_ in t["divs"]] != order:
                err = f"divs {[d_['lang'] for d_ in t['divs']]} want {order}"
            parsed = []
            for d_, l in zip(t["divs"], order):
                if err:
                    break
                got = [(p_["start"], p_["end"]) for p_ in d_["ps"]]
                parsed.append(tuple(got))
                ms = [({a // 1000}, {b // 1000}) for a, b in per[l]]
                e1 = match_plain(got, ms)
                if e1 and wname != "DFXPWriter":
                    e1 = match_plain(got, [m for i, m in enumerate(ms) if not (i and per[l][i - 1] == per[l][i])])
                if e1:
                    err = f"{l}: {e1}"
            parsed = tuple(parsed)
    except parsers.ParseError as e:
        return [(f"C02/{wname}/two-languages/output-unparseable", {"err": str(e)[:300], "doc": doc[:300]})], "unparseable"
    if err:
        kind = err.split(":")[0].split(" ")[0]
        rel = "coinciding" if sh == 0 else ("touching" if shift == "touch" else ("interleaved" if sh < 10000000 else "disjoint"))
        return [(f"C02/{wname}/two-languages/{kind}/{rel}" + ("/shifted-language-first" if swap else ""), {"err": err, "times": per, "doc": doc[:900]})], tuple(parsed)
    return [], tuple(parsed)


def evaluate_idle_language(wname, opt, times, layouts, first):
    """the set also holds a language without captions (before or after the written one): the captions of the other
    language are written all the same"""
    real_build = build_set

    def build_with_idle(times_, layouts_):
        from pycaption import CaptionList, CaptionSet

        cs = real_build(times_, layouts_)
        cl = cs.get_captions("en-US")
        return CaptionSet({"fr-FR": CaptionList(), "en-US": cl} if first else {"en-US": cl, "fr-FR": CaptionList()})

    globals()["build_set"] = build_with_idle
    try:
        v, out = evaluate(wname, opt, times, layouts)
    finally:
        globals()["build_set"] = real_build
    return [(sig + "/set-has-a-language-without-captions" + ("-first" if first else ""), det) for sig, det in v], out


def evaluate_history(wname, opt, times, layouts):
    """the captions of the set were created with other times, printed / formatted, and then given their final times by
    assignment (what adjust_caption_timing-like user code does): the writers must write the final times"""
    v = []
    real_build = build_set

    def build_with_history(times_, layouts_):
        cs = real_build([(a + 1234567, b + 7654321) for a, b in times_], layouts_)
        for c, (a, b) in zip(cs.get_captions("en-US"), times_):
            repr(c)
            c.format_start()
            c.format_end()
            c.format_start(",")
            c.format_end(",")
            c.start, c.end = a, b
        return cs

    globals()["build_set"] = build_with_history
    try:
        v, out = evaluate(wname, opt, times, layouts)
    finally:
        globals()["build_set"] = real_build
    return [(sig + "/captions-formatted-before-their-times-were-set", det) for sig, det in v], out


def opts_for(w):
    if w == "WebVTTWriter":
        return ["default", "lang", "norel"]
    if w in ("DFXPWriter", "SinglePositioningDFXPWriter"):
        return ["default", "force", "video"]
    if w == "LegacyDFXPWriter":
        return ["default", "force"]
    if w == "SAMIWriter":
        return ["default", "norel"]
    return ["default"]


def reuse_items():
    """a sequence over all writers / options / shapes for the reuse run (one writer object per class + options)"""
    inst = grid_instants()[::97] + scc_instants()[::9]
    items = []
    for i, t in enumerate(inst):
        for w in WRITERS:
            opts = opts_for(w)
            times = times_for(t, DURS[i % 3], GAPS[i % 5], GAPS[(i // 5) % 5])
            if max(e for _, e in times) < 86400000000:
                items.append((w, opts[i % len(opts)], times, i % 4 == 0))
    return items


def reuse_eval(item):
    return evaluate(*item)


def shards(tier, seed):
    sh = [{"reuse": True}, {"history": True}]
    for w in ("SAMIWriter", "DFXPWriter", "SinglePositioningDFXPWriter", "LegacyDFXPWriter"):
        for part in range(4):
            sh.append({"multi": w, "part": part, "nparts": 4, "stride": 40 if tier == "quick" else 400})
    for w in WRITERS:
        nparts = 8 if w in SLOW else 2
        for part in range(nparts):
            sh.append({"w": w, "part": part, "nparts": nparts, "stride": (3 if tier == "quick" else 1) if w in SLOW else 1, "tier": tier})
    return sh


def cases_for(d):
    inst = grid_instants()
    if d["stride"] > 1:
        keep = set(inst[:: d["stride"]]) | {i for i in inst if i < 2000000 or i % 1000000 in (0, 999999, 999000)}
        inst = [i for i in inst if i in keep]
    inst = inst + scc_instants()
    n = 0
    for t in inst:
        for dur in DURS:
            for g1 in GAPS:
                for g2 in GAPS:
                    n += 1
                    if n % d["nparts"] != d["part"]:
                        continue
                    if g1 in ("first", "near"):
                        continue  # "first" is only meaningful for the third caption (A, B, A); "near" is kept to the third one as well
                    times = times_for(t, dur, g1, g2)
                    if max(e for _, e in times) >= 86400000000:
                        continue
                    yield times, (g1 == "far" and g2 == "touch")


def run_shard(d):
    acc = Acc()
    if d.get("reuse"):
        shared.run(acc, reuse_items(), reuse_eval, sample=lambda it: {"reuse_run_step": [it[0], it[1], it[2]]})
        return acc.result()
    if d.get("history"):
        for i, item in enumerate(reuse_items()):
            v, out = evaluate_history(*item)
            acc.case(("history",) + tuple(map(str, item)), True, out, {"captions_formatted_then_retimed": True, "writer": item[0], "caption_times_us": item[2]})
            for sig, det in v:
                acc.violation(sig, {"history": True, "item": i}, det)
            for first in (False, True):
                if item[1] == "force" or (first and item[0] in ("SRTWriter", "WebVTTWriter", "MicroDVDWriter") and item[1] != "lang"):
                    continue  # single-language writers write the first language of the set: the idle one must then be named explicitly
                if first and item[0] == "SAMIWriter" and any(item[2][k + 1][0] < item[2][k][1] or item[2][k + 1] == item[2][k] for k in range(len(item[2]) - 1)):
                    continue  # a language that is not the set's first is filed by start time: order is only defined for sorted, non-overlapping cues
                v, out = evaluate_idle_language(*item, first)
                acc.case(("idle",) + tuple(map(str, item)) + (first,), True, out, {"language_without_captions_in_the_set": "first" if first else "last", "writer": item[0], "caption_times_us": item[2]})
                for sig, det in v:
                    acc.violation(sig, {"idle": True, "item": i, "first": first}, det)
        return acc.result()
    if d.get("multi"):
        w = d["multi"]
        n = 0
        ints = [x for x in grid_instants() if isinstance(x, int)]
        # cues sorted and non-overlapping within a language: with several languages SAMI files a paragraph in the
        # SYNC block of its start time, so only then is "in order" defined
        for t in ints[:: max(1, len(ints) // d["stride"])]:
            for dur in DURS[:2]:
                for g1 in ("touch", "+1ms", "far"):
                    for g2 in ("touch", "+1ms", "far"):
                        n += 1
                        if n % d["nparts"] != d["part"]:
                            continue
                        times = times_for(t, dur, g1, g2)
                        if max(e for _, e in times) + 31000000 >= 86400000000:
                            continue
                        for shift in SHIFTS:
                            for swap in (False, True):
                                opt = opts_for(w)[n % len(opts_for(w))] if opts_for(w)[n % len(opts_for(w))] != "force" else "default"
                                v, out = evaluate_multi(w, opt, times, shift, swap)
                                acc.case(("multi", w, opt, times, shift, swap), True, out, {"writer": w, "two_languages": True, "caption_times_us": times, "second_language_shift": shift, "shifted_language_first": swap})
                                for sig, det in v:
                                    acc.violation(sig, {"multi": True, "w": w, "opt": opt, "times": times, "shift": shift, "swap": swap}, det)
        return acc.result()
    w = d["w"]
    opts = opts_for(w)
    for times, layouts in cases_for(d):
        for oi, opt in enumerate(opts):
            if oi and not layouts and (times[0][0] % 7000 != 0):
                continue  # option variants on a sub-grid (times are option-independent by construction)
            v, out = evaluate(w, opt, times, layouts)
            acc.case((w, opt, times, layouts), True, out, {"writer": w, "option": opt, "caption_times_us": times, "two_layouts_in_caption_1": layouts})
            for sig, det in v:
                acc.violation(sig, {"w": w, "opt": opt, "times": times, "layouts": layouts}, det)
    return acc.result()


def replay(case):
    if case.get("reuse"):
        return shared.replay(reuse_items(), reuse_eval, case["index"])
    if case.get("idle"):
        v, _ = evaluate_idle_language(*reuse_items()[case["item"]], case["first"])
        return [{"sig": s, "detail": d} for s, d in v]
    if case.get("history"):
        v, _ = evaluate_history(*reuse_items()[case["item"]])
        return [{"sig": s, "detail": d} for s, d in v]
    times = [tuple(t) for t in case["times"]]
    if case.get("multi"):
        v, _ = evaluate_multi(case["w"], case["opt"], times, case["shift"], case["swap"])
        return [{"sig": s, "detail": d} for s, d in v]
    v, _ = evaluate(case["w"], case["opt"], times, case["layouts"])
    return [{"sig": s, "detail": d} for s, d in v]
