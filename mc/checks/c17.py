"""C17  SCC output is structurally valid and re-reads to the same words.

E3: caption sets over the CEA-608 basic character table (every basic character; lines of boundary lengths built from
words of boundary lengths, with and without inner hyphens; 1..4 lines; 1..3 cues; just-feasible and sparse spacing; first
cue early / late) are written by SCCWriter. The output is checked by an independent SCC grammar + parity check, decoded
by the reference CEA-608 decoder (mc.ref.cea608) and re-read by SCCReader.
"""
import itertools
import re
from fractions import Fraction

from mc.acc import Acc
from mc.ref import cea608 as C

ID = "C17"
LEVEL = "exploration"
RULE = (
    "A: every basic character alone / inside a word / doubled; B: all (line length x word length x hyphenation) line types as "
    "1-line captions, all pairs of 12 representative line types as 2-line captions, 3- and 4-line stacks; C: 1..3 cues x spacing "
    "{just-feasible, sparse} x first cue {as early as feasible, late}. distinct = distinct caption sets; non-trivial = all"
)
ASSUMPTIONS = [
    "text is drawn from the CEA-608 basic table (0x7f excluded); cues are spaced so that every caption can be transmitted one word per frame before its start",
    "'within three frames' is measured from the transmission instant of the first End-Of-Caption word: (line timecode frames + word index) * 1001/30000 s",
    "just-feasible spacing is derived from the word count of a first (sparse) run of the writer; this only selects inputs, it is not part of the oracle",
]
TRUSTED = ["mc.ref.cea608 (encoder tables + reference decoder)"]
MANIFEST = {
    "technique": "bounded-exhaustive enumeration of caption sets over the basic character table and boundary line/word lengths; oracle = independent SCC grammar/parity check + reference CEA-608 decoder + word-sequence comparison of the re-read",
    "text": "Every caption set in the family is written by the real SCCWriter; header, line format, odd parity, PAC rows, 32-column limit, word integrity, caption count, timecode order and the three-frame visibility bound are checked on each output.",
    "note": "Bounded text shapes; spacing domain as stated in the property.",
}
FRAME = Fraction(1001, 30000) * 1000000
LINE_LENS = [1, 31, 32, 33, 63, 64, 65, 80]
WORD_LENS = [1, 5, 31, 32, 33, 40]
LINE_RE = re.compile(r"^(\d{2}):(\d{2}):(\d{2}):(\d{2})\t((?:[0-9a-f]{4} )*[0-9a-f]{4})$")
ALPHA = "abcdefghijklmnopqrstuvwxyzABCDEFGHIJKLMNOPQRSTUVWXYZ"


def bounds(tier):
    return {"line_lengths": LINE_LENS, "word_lengths": WORD_LENS, "max_lines": 4, "max_cues": 3}


def make_line(L, wlen, hyph, salt=0):
    words = []
    total = 0
    k = salt
    while total < L:
        n = min(wlen, L - total)
        base = ALPHA[k % len(ALPHA)]
        w = base * n
        if hyph and n >= 3:
            w = w[: n // 2] + "-" + w[n // 2 + 1 :]
        words.append(w)
        total += n + 1
        k += 1
    line = " ".join(words)
    return line[:L].rstrip() or ALPHA[salt % 52]


def build_set(cues):
    """cues: [(start_us, end_us, [lines])]"""
    from pycaption import Caption, CaptionList, CaptionNode, CaptionSet

    cl = CaptionList()
    for s, e, lines in cues:
        nodes = []
        for i, ln in enumerate(lines):
            if i:
                nodes.append(CaptionNode.create_break())
            if _SPLIT and " " in ln.strip():
                # the same line as several text nodes, the blank between the first two words being a node of its own
                # (what the DFXP reader returns for "<span>one</span> <span>two</span> three")
                head, rest = ln.split(" ", 1)
                nodes += [CaptionNode.create_text(head), CaptionNode.create_text(" "), CaptionNode.create_text(rest)]
            else:
                nodes.append(CaptionNode.create_text(ln))
        cl.append(Caption(s, e, nodes))
    return CaptionSet({"en-US": cl})


_SPLIT = False


def parse_output(doc):
    """-> (lines [(frames_total, [words])], problems [str])"""
    problems = []
    raw = doc.split("\n")
    if not raw or raw[0] != "Scenarist_SCC V1.0":
        problems.append("header")
    out = []
    for ln in raw[1:]:
        if ln == "":
            continue
        m = LINE_RE.match(ln)
        if not m:
            problems.append(f"line-format:{ln[:60]!r}")
            continue
        h, mi, s, f = (int(x) for x in m.groups()[:4])
        if mi > 59 or s > 59 or f > 29:
            problems.append(f"timecode-field-range:{ln[:11]}")
        out.append((((h * 60 + mi) * 60 + s) * 30 + f, m.group(5).split(" ")))
    return out, problems


def check_output(doc, cues, want_timing=True):
    """-> list of (kind, detail)"""
    v = []
    lines, problems = parse_output(doc)
    for p in problems:
        v.append(("structure/" + p.split(":")[0], {"problem": p}))
    if problems:
        return v, "structure"
    prev = None
    dec = C.Decoder()
    shown = []  # (t_eoc in us (Fraction), [lines])
    for fr, words in lines:
        if prev is not None and fr < prev:
            v.append(("timecodes-decrease", {"at": fr, "prev": prev}))
        prev = fr
        for idx, w in enumerate(words):
            for b in (w[:2], w[2:]):
                if bin(int(b, 16)).count("1") % 2 == 0:
                    v.append(("parity", {"word": w}))
            r = dec.feed(w)
            if r == "other":
                v.append(("unknown-control-code", {"word": w}))
            if w == C.EOC and r != "dup":
                caps = dec.screen_captions()
                t = Fraction(fr + idx) * FRAME
                shown.append((t, caps))
    if dec.overflow:
        v.append(("row-exceeds-32-columns", {}))
    # one caption per input caption, same words
    if len(shown) != len(cues):
        v.append(("caption-count(reference-decoder)", {"got": len(shown), "want": len(cues)}))
    else:
        for i, ((t, caps), (s, e, in_lines)) in enumerate(zip(shown, cues)):
            out_words = [w for c in caps for l in c["lines"] for w in "".join(ch for ch, _ in l).split()]
            in_words = [w for l in in_lines for w in l.split()]
            kind = word_compare(in_words, out_words)
            if kind:
                v.append((kind + "(reference-decoder)", {"cue": i, "in": in_words, "out": out_words}))
            for c in caps:
                for l in c["lines"]:
                    if len(l) > 32:
                        v.append(("row-exceeds-32-columns", {"len": len(l)}))
            if want_timing:
                delta = (t - Fraction(s)) / FRAME
                if abs(delta) > 3:
                    v.append(("not-visible-within-3-frames/" + ("first-cue" if i == 0 else "later-cue"), {"cue": i, "frames_off": float(delta), "start_us": s}))
    return v, tuple(tuple(len(l) for c in caps for l in c["lines"]) for _, caps in shown)


def word_compare(in_words, out_words):
    if "".join(in_words) != "".join(out_words):
        return "characters-differ"
    j = 0
    for w in in_words:
        if len(w) <= 32:
            if j >= len(out_words) or out_words[j] != w:
                return "word-broken"
            j += 1
        else:
            acc = ""
            while j < len(out_words) and len(acc) < len(w):
                acc += out_words[j]
                j += 1
            if acc != w:
                return "long-word-mangled"
    return None


def evaluate(texts, spacing, first, base_us=0):
    """texts: list (per cue) of list of lines"""
    from pycaption import SCCReader, SCCWriter

    # pass 1 (sparse) to learn the number of words per caption line -> feasible spacing
    cues = []
    t = 20000000
    for lines in texts:
        cues.append((t, t + 2000000, lines))
        t += 20000000
    try:
        doc0 = SCCWriter().write(build_set(cues))
    except Exception as e:  # noqa
        return [(f"raises:{type(e).__name__}", {"err": str(e)[:200]})], "raises"
    l0, _ = parse_output(doc0)
    nwords = [len(w) for _, w in l0 if len(w) > 2]
    if len(nwords) != len(texts):
        nwords = [80] * len(texts)
    cues = []
    t = None
    for i, lines in enumerate(texts):
        need = int((nwords[i] + 4) * FRAME) + 1
        if i == 0:
            s = need + (0 if first == "early" else 7000000) + base_us
        else:
            prev_end = cues[-1][1]
            if spacing == "feasible":
                s = prev_end + need + int(4 * FRAME)
            elif spacing == "overlap-load":
                # the next caption has to start loading while the previous one is still displayed: the previous
                # cue ends after the load has begun but well (> 3 frames) before the next start
                s = prev_end + max(need // 2, int(6 * FRAME))
            elif isinstance(spacing, str) and spacing.startswith("sweep:"):
                # half-frame sweep around the point where the previous cue ends exactly when the next one starts loading
                s = prev_end + need + int(Fraction(int(spacing[6:]), 2) * FRAME)
            else:
                s = prev_end + 10000000
        cues.append((s, s + 2000000, lines))
    try:
        doc = SCCWriter().write(build_set(cues))
        # the same writer object used a second time must write the same document
        global _SHARED_WRITER
        if _SHARED_WRITER is None:
            _SHARED_WRITER = SCCWriter()
        doc2 = _SHARED_WRITER.write(build_set(cues))
    except Exception as e:  # noqa
        return [(f"raises:{type(e).__name__}", {"err": str(e)[:200]})], "raises"
    v, out = check_output(doc, cues)
    if doc2 != doc:
        v2, _ = check_output(doc2, cues)
        v.append(("reused-writer-output-differs" + ("+invalid" if v2 else ""), {"kinds": [k for k, _ in v2][:4]}))
        _SHARED_WRITER = None
    # re-read with pycaption's own reader
    try:
        cs = SCCReader().read(doc)
        caps = list(cs.get_captions("en-US"))
        if len(caps) != len(cues):
            v.append(("caption-count(SCCReader)", {"got": len(caps), "want": len(cues)}))
        else:
            for i, (c, (in_start, _, in_lines)) in enumerate(zip(caps, cues)):
                kind = word_compare([w for l in in_lines for w in l.split()], c.get_text().split())
                if kind:
                    v.append((kind + "(SCCReader)", {"cue": i, "in": in_lines, "out": c.get_text()}))
                # ... and read back, the caption appears within three frames of its start time as well
                if spacing == "sparse" and abs(Fraction(c.start) - in_start) > 3 * FRAME + FRAME / 2:
                    v.append(("reread-start-off-by-more-than-three-frames", {"cue": i, "start": in_start, "reread_start": c.start}))
                    break
    except Exception as e:  # noqa
        v.append((f"reread-raises:{type(e).__name__}", {"err": str(e)[:300]}))
    for kind, det in v:
        det["doc"] = doc[:1500]
    return v, out


_SHARED_WRITER = None


def feature(texts):
    f = set()
    for lines in texts:
        for l in lines:
            if "-" in l:
                f.add("hyphen")
            if any(len(w) > 32 for w in l.split()):
                f.add("long-word")
            if len(l) > 32:
                f.add("wrap")
    return "+".join(sorted(f)) or "plain"


REP = [(1, 1, False), (31, 5, False), (32, 32, False), (33, 5, False), (33, 33, False), (64, 31, False), (65, 5, True), (80, 40, False), (80, 5, True), (32, 5, True), (63, 32, False), (40, 1, False)]


def shards(tier, seed):
    sh = [{"k": "chars", "part": p} for p in range(4)]
    sh += [{"k": "lines1"}]
    sh += [{"k": "lines2", "a": i} for i in range(len(REP))]
    types = all_types()
    step = 6 if tier == "quick" else 1
    sh += [{"k": "lines2x", "lo": i, "hi": min(len(types), i + 8), "full": tier != "quick"} for i in range(0, len(types), 8)]
    sh += [{"k": "stacks"}]
    sh += [{"k": "cues", "part": p} for p in range(4)]
    sh += [{"k": "late"}, {"k": "sweep"}]
    return sh


def all_types():
    return [(L, wl, hy) for L in LINE_LENS for wl in WORD_LENS for hy in (False, True)]


def run_case(acc, texts, spacing="sparse", first="late"):
    global _SPLIT
    v, out = evaluate(texts, spacing, first)
    acc.case((texts, spacing, first), True, out, {"cues": texts, "spacing": spacing, "first_cue": first})
    for kind, det in v:
        acc.violation(f"C17/{kind}/{feature(texts)}", {"texts": texts, "spacing": spacing, "first": first}, det)
    if spacing == "sparse" and any(" " in l.strip() for c in texts for l in c):
        _SPLIT = True
        try:
            v, out = evaluate(texts, spacing, first)
        finally:
            _SPLIT = False
        acc.case((texts, spacing, first, "split"), True, out, {"cues": texts, "spacing": spacing, "first_cue": first, "lines_as_several_text_nodes": True})
        for kind, det in v:
            acc.violation(f"C17/{kind}/{feature(texts)}/line-of-several-text-nodes", {"texts": texts, "spacing": spacing, "first": first, "split": True}, det)


def run_shard(d):
    acc = Acc()
    k = d["k"]
    if k == "late":
        # timecodes beyond the first hour (minute / hour carries of the written timecode)
        for base in (3590000000, 3600000000, 3695000000, 7261000000, 35999000000, 86300000000, 86395000000, 90061000000, 176400000000, 356400000000):
            for a in REP[:4]:
                texts = [[make_line(*a)], [make_line(*REP[1], salt=3)]]
                v, out = evaluate(texts, "sparse", "late", base)
                acc.case((texts, "late", base), True, out, {"cues": texts, "first_cue_at_us": base})
                for kind, det in v:
                    acc.violation(f"C17/{kind}/{feature(texts)}/beyond-one-hour", {"texts": texts, "spacing": "sparse", "first": "late", "base": base}, det)
    elif k == "chars":
        chars = [ch for code, ch in sorted(C.BASIC.items()) if code != 0x7F and ch != " "]
        for i, ch in enumerate(chars):
            if i % 4 != d["part"]:
                continue
            for t in (ch, f"a{ch}b", f"{ch}{ch} {ch}", f"word {ch} word", ch * 33):
                run_case(acc, [[t]])
    elif k == "lines1":
        for L in LINE_LENS:
            for wl in WORD_LENS:
                for hy in (False, True):
                    for first in ("late", "early"):
                        run_case(acc, [[make_line(L, wl, hy)]], "sparse", first)
    elif k == "lines2":
        a = REP[d["a"]]
        for b in REP:
            run_case(acc, [[make_line(*a), make_line(*b, salt=7)]])
    elif k == "lines2x":
        types = all_types()
        others = types if d["full"] else [REP[1], REP[4], REP[8]]
        for a in types[d["lo"] : d["hi"]]:
            for b in others:
                run_case(acc, [[make_line(*a), make_line(*b, salt=11)]])
                run_case(acc, [[make_line(*b, salt=11), make_line(*a)]])
    elif k == "stacks":
        for n in (3, 4):
            for combo in itertools.product(REP[:6] if n == 3 else REP[:4], repeat=n):
                run_case(acc, [[make_line(*c, salt=3 * i) for i, c in enumerate(combo)]])
    elif k == "sweep":
        for a in REP[:3]:
            for b in REP[:4]:
                for j in range(-16, 17):
                    run_case(acc, [[make_line(*a)], [make_line(*b, salt=5)]], f"sweep:{j}", "late")
    else:
        n = 0
        for ncues in (2, 3):
            for combo in itertools.product(REP[:7], repeat=ncues):
                for spacing in ("feasible", "overlap-load", "sparse"):
                    for first in ("early", "late"):
                        n += 1
                        if n % 4 != d["part"]:
                            continue
                        run_case(acc, [[make_line(*c, salt=5 * i)] for i, c in enumerate(combo)], spacing, first)
    return acc.result()


def replay(case):
    global _SHARED_WRITER
    from pycaption import SCCWriter

    # a reused writer: give the shared object one earlier document to write
    _SHARED_WRITER = SCCWriter()
    _SHARED_WRITER.write(build_set([(20000000, 22000000, ["earlier document"])]))
    global _SPLIT
    _SPLIT = bool(case.get("split"))
    try:
        v, _ = evaluate(case["texts"], case["spacing"], case["first"], case.get("base", 0))
    finally:
        _SPLIT = False
    if case.get("split"):
        return [{"sig": f"C17/{k}/{feature(case['texts'])}/line-of-several-text-nodes", "detail": d} for k, d in v]
    return [{"sig": f"C17/{k}/{feature(case['texts'])}" + ("/beyond-one-hour" if case.get("base") else ""), "detail": det} for k, det in v]
