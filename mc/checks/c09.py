"""C09  Writing never alters its input and is deterministic.

E2 / explicit-state search over write histories. For every writer class a shared writer instance is driven through
ALL sequences of write operations (caption set x options) up to a depth bound; the search is pruned on the canonical
dump of (writer instance, process-global pycaption state) - same state, same futures. After every operation:
  (1) the deep structural snapshot of every pooled caption set equals the snapshot taken before (also when the writer
      raised);
  (2) the output (or the exception type) equals that of the same write executed alone in a pristine interpreter;
  (3) the process-global state (module globals, class attributes, default arguments) is re-digested; if the history
      changed it, every write of the menu is probed with FRESH writer objects in the polluted process and compared with
      the pristine outputs (a change that alters no output is counted, not reported), then pycaption is reloaded.
The whole exploration is repeated under several PYTHONHASHSEED values; pristine references are computed under seed 0,
so outputs are also compared across hash seeds.
"""
import json
import os
import subprocess
import sys

from mc.acc import Acc, h8

ID = "C09"
LEVEL = "model_checking"
RULE = (
    "per writer class: BFS over histories of write(set, options) on one shared instance, depth <= D, menu = caption-set pool x "
    "option sets; states = distinct canonical dumps of (writer instance, global state); transitions = writes executed; every "
    "transition is compared with a pristine single write in a fresh interpreter (traces_validated). Cross-writer histories: all "
    "ordered pairs (write with writer A, then writer B) over the pool. non-trivial = history of length >= 2"
)
ASSUMPTIONS = [
    "state-based pruning is sound because the canonical dump covers the writer instance and every mutable object reachable from the loaded pycaption modules (mc.canon.global_state); the caption sets themselves are checked to be unchanged after every step",
    "hash seeds are sampled from a fixed list",
    "pool of caption sets and option sets is finite (listed in the module)",
]
TRUSTED = ["mc.canon reflective dump", "subprocess isolation for pristine references"]
MANIFEST = {
    "technique": "explicit-state BFS over write histories on shared writer instances (state = canonical dump of instance + process globals), differential oracle against pristine single writes in fresh interpreters, repeated under several hash seeds",
    "text": "All write sequences up to the depth bound are executed on the real writers; each step's output is compared with the same write done alone in a fresh process, and the input sets and the process-global state are re-snapshotted after every step.",
    "note": "Depth bound 3 (quick) / 4 (thorough); finite pools; hash seeds sampled.",
}

WRITERS = ["SRTWriter", "WebVTTWriter", "MicroDVDWriter", "DFXPWriter", "SinglePositioningDFXPWriter", "LegacyDFXPWriter", "SAMIWriter", "SCCWriter"]
SETS = ["plain", "spans", "unbalanced", "px-novideo", "two-langs", "empty", "scc", "styled", "unbalanced-two", "unsorted", "spans-redefined", "two-layouts", "sami-read", "dfxp-read", "cells", "cells-swapped", "lang-px"]
SEEDS = {"quick": ["0", "5"], "thorough": ["0", "1", "2", "3", "5", "8", "13", "21"]}
# first writes of every (writer, set, options) are repeated under many more hash seeds (one cheap process per seed)
SWEEP = {"quick": [str(i) for i in range(1, 13)], "thorough": [str(i) for i in range(1, 65)]}
VERIF = os.path.dirname(os.path.dirname(os.path.dirname(os.path.abspath(__file__))))


def bounds(tier):
    return {"depth": 3 if tier == "quick" else 4, "sets": SETS, "hash_seeds": SEEDS[tier], "hash_seeds_for_first_writes": len(SWEEP[tier])}


def opts_for(w):
    if w == "WebVTTWriter":
        return [{}, {"lang": "last"}, {"init": {"relativize": False}}, {"init": {"video_width": 640, "video_height": 360}}, {"init": {"video_width": 1280, "video_height": 720, "fit_to_screen": False}}, {"init": {"video_width": 360, "video_height": 360}}]
    if w in ("DFXPWriter", "SinglePositioningDFXPWriter"):
        return [{}, {"force": "last"}, {"init": {"fit_to_screen": False}}, {"init": {"video_width": 640, "video_height": 360}}, {"init": {"video_width": 360, "video_height": 360}}]
    if w == "LegacyDFXPWriter":
        return [{}, {"force": "last"}]
    if w == "SAMIWriter":
        return [{}, {"init": {"relativize": False, "fit_to_screen": False}}, {"init": {"video_width": 360, "video_height": 360}}]
    return [{}]


def make_set(name):
    import pycaption
    from pycaption import Caption, CaptionList, CaptionNode, CaptionSet
    from pycaption.geometry import Alignment, HorizontalAlignmentEnum, Layout, Padding, Point, Size, Stretch, UnitEnum, VerticalAlignmentEnum

    T, B, S = CaptionNode.create_text, CaptionNode.create_break, CaptionNode.create_style
    P = UnitEnum.PERCENT

    def cap(i, nodes, **kw):
        return Caption(1000000 * (2 * i + 1), 1000000 * (2 * i + 2), nodes, **kw)

    if name == "plain":
        return CaptionSet({"en-US": CaptionList([cap(0, [T("Hello"), B(), T("world")]), cap(1, [T("Bye & <ok>")])])})
    if name == "spans":
        cs = CaptionSet({"en-US": CaptionList([cap(0, [T("a "), S(True, {"italics": True}), T("b"), S(False, {"italics": True}), T(" c")]), cap(1, [S(True, {"class": "c1"}), T("d"), S(False, {"class": "c1"})])])})
        cs.set_styles({"c1": {"color": "red", "italics": True}})
        return cs
    if name == "spans-redefined":
        # the same class name and the same layout-less structure as "spans", but the class means something else
        cs = CaptionSet({"en-US": CaptionList([cap(0, [T("a "), S(True, {"bold": True}), T("b"), S(False, {"bold": True}), T(" c")]), cap(1, [S(True, {"class": "c1"}), T("d"), S(False, {"class": "c1"})])])})
        cs.set_styles({"c1": {"color": "blue", "bold": True, "underline": True}})
        return cs
    if name == "unbalanced":
        return CaptionSet({"en-US": CaptionList([cap(0, [S(True, {"italics": True}), T("never closed")]), cap(1, [T("next")])])})
    if name == "unbalanced-two":
        return CaptionSet({"en-US": CaptionList([cap(0, [T("x"), S(True, {"italics": True, "color": "blue"}), T("open")])])})
    if name == "px-novideo":
        L = Layout(origin=Point(Size(20, UnitEnum.PIXEL), Size(30, UnitEnum.PIXEL)))
        return CaptionSet({"en-US": CaptionList([cap(0, [T("first")]), cap(1, [T("positioned in px")], layout_info=L)])})
    if name == "lang-px":
        # the language-level layout is absolute (needs a video size to be relativized); captions inherit it
        L = Layout(origin=Point(Size(64, UnitEnum.PIXEL), Size(36, UnitEnum.PIXEL)), extent=Stretch(Size(320, UnitEnum.PIXEL), Size(72, UnitEnum.PIXEL)))
        return CaptionSet({"en-US": CaptionList([cap(0, [T("inherits")]), cap(1, [T("too")])], layout_info=L)})
    if name == "two-layouts":
        # one caption introduces two layouts at once (region numbering), one of them needs fitting
        la = Layout(origin=Point(Size(10, P), Size(10, P)))
        lb = Layout(origin=Point(Size(20, P), Size(70, P)), alignment=Alignment(HorizontalAlignmentEnum.RIGHT, VerticalAlignmentEnum.TOP))
        lc = Layout(alignment=Alignment(HorizontalAlignmentEnum.CENTER, VerticalAlignmentEnum.CENTER))
        return CaptionSet({"en-US": CaptionList([cap(0, [T("a", layout_info=la), B(layout_info=la), T("b", layout_info=lb), B(layout_info=lb), T("c", layout_info=lc)]), cap(1, [T("d", layout_info=lb)])])})
    if name == "two-langs":
        return CaptionSet({"en-US": CaptionList([cap(0, [T("one")]), cap(2, [T("two")])]), "fr-FR": CaptionList([cap(1, [T("un")]), cap(2, [T("deux")])])})
    if name == "empty":
        return CaptionSet({"en-US": CaptionList()})
    if name == "unsorted":
        # captions out of time order, two of them concurrent, one with surrounding white space
        return CaptionSet({"en-US": CaptionList([cap(3, [T("  late  ")]), cap(1, [T("early")]), cap(1, [T("early too"), B(), B()]), cap(0, [T("first")])])})
    if name == "scc":
        doc = "Scenarist_SCC V1.0\n\n00:00:01:02\t94ae 94ae 9420 9420 9470 9470 c8e5 ecec ef80 91ae 91ae f7ef f2ec 6480 942f 942f\n\n00:00:03:11\t942c 942c\n\n00:00:04:00\t94ae 9420 1370 c1c2 94d0 c3c4 942f\n\n"
        return pycaption.SCCReader().read(doc)
    if name in ("cells", "cells-swapped"):
        # the same cell counts on the other axis (square video: both axes relate to the same number of pixels)
        a, b = (6, 3) if name == "cells" else (3, 6)
        L = Layout(origin=Point(Size(a, UnitEnum.CELL), Size(b, UnitEnum.CELL)), extent=Stretch(Size(2 * a, UnitEnum.CELL), Size(b, UnitEnum.CELL)))
        return CaptionSet({"en-US": CaptionList([cap(0, [T("in cells")], layout_info=L), cap(1, [T("plain")])])})
    if name == "sami-read":
        # a set as the SAMI reader builds it in this very process (inline declarations, class rules with several properties)
        doc = ('<SAMI><HEAD><STYLE TYPE="text/css"><!--\nP { margin-left: 2%; font-family: Arial; }\n.ENCC {Name: English; lang: en-US;}\n'
               '.S1 { color: red; font-style: italic; text-align: right; }\n--></STYLE></HEAD><BODY>\n'
               '<SYNC start="1000"><P class="ENCC"><span style="font-style:italic;color:blue;font-weight:bold;text-decoration:underline;">styled</span> text</P></SYNC>\n'
               '<SYNC start="2000"><P class="ENCC" style="text-align:right;color:green;font-size:10px;">second <span class="S1">cls</span></P></SYNC>\n'
               '<SYNC start="3000"><P class="ENCC">&nbsp;</P></SYNC></BODY></SAMI>')
        return pycaption.SAMIReader().read(doc)
    if name == "dfxp-read":
        doc = ('<?xml version="1.0" encoding="utf-8"?><tt xml:lang="en" xmlns="http://www.w3.org/ns/ttml" xmlns:tts="http://www.w3.org/ns/ttml#styling"><head><styling>'
               '<style xml:id="s1" tts:color="red" tts:fontStyle="italic" tts:fontFamily="Arial"/><style xml:id="s2" tts:textAlign="center" tts:fontSize="10px"/><style xml:id="s3" tts:fontWeight="bold"/></styling>'
               '<layout><region xml:id="r1" tts:origin="10% 20%" tts:extent="30% 40%" tts:padding="1% 2% 3% 4%" tts:textAlign="right" tts:displayAlign="before"/><region xml:id="r2" tts:origin="50% 60%"/>' + "".join(f'<region xml:id="{rid}" tts:origin="{5 + 3 * k}% 30%"/>' for k, rid in enumerate(["top", "low", "a", "bb", "left", "zone9"])) + '</layout></head><body><div xml:lang="en">'
               '<p begin="00:00:01.000" end="00:00:02.000" region="r1" style="s1 s2 s3">one <span tts:fontStyle="italic" tts:color="blue" tts:textDecoration="underline" region="r2">two</span></p>'
               '<p begin="00:00:03.000" end="00:00:04.000" style="s2">three<br/>four</p>'
               # no region on the paragraph; its descendants name two different ones
               '<p begin="00:00:05.000" end="00:00:06.000"><span region="r1">five</span> <span region="r2">six</span></p>'
               # no region on the paragraph; one descendant names a region, the others (a <br/>, a plain span) none -
               # spelled with several region ids so that a hash-dependent choice shows under few seeds
               + "".join(f'<p begin="00:00:{7 + k:02d}.000" end="00:00:{7 + k:02d}.500">t{k} <span region="{rid}">in {rid}</span><br/><span>more</span></p>' for k, rid in enumerate(["r1", "r2", "top", "low", "a", "bb", "left", "zone9"]))
               + '</div></body></tt>')
        return pycaption.DFXPReader().read(doc)
    if name == "styled":
        L1 = Layout(origin=Point(Size(10, P), Size(10, P)), alignment=Alignment(HorizontalAlignmentEnum.CENTER, VerticalAlignmentEnum.TOP))
        L2 = Layout(padding=Padding(before=Size(1, P), after=Size(2, P), start=Size(3, P), end=Size(4, P)))
        cl = CaptionList([cap(0, [S(True, {"italics": True}, layout_info=L1), T("s", layout_info=L1), S(False, {"italics": True}, layout_info=L1)], style={"class": "p1", "text-align": "center"}, layout_info=L1), cap(0, [T("same time")]), cap(1, [T("t")], style={"color": "red"})], layout_info=L2)
        cs = CaptionSet({"en-US": cl}, layout_info=L2)
        cs.set_styles({"p1": {"text-align": "right", "color": "green", "lang": "en-US"}, "p": {"font-family": "Arial"}})
        return cs
    raise ValueError(name)


def do_write(writer, wname, cs, opt):
    """-> ('ok', sha of output) | ('raises', ExceptionType)"""
    kw = {}
    langs = cs.get_languages()
    if opt.get("lang") == "last":
        kw["lang"] = langs[-1]
    if opt.get("force") == "last":
        kw["force"] = langs[-1]
    try:
        out = writer.write(cs, **kw)
    except Exception as e:  # noqa
        return ("raises", type(e).__name__), None
    return ("ok", h8(out)), out


def new_writer(wname, opt):
    import pycaption
    from pycaption.dfxp import extras

    cls = getattr(pycaption, wname, None) or getattr(extras, wname)
    return cls(**opt.get("init", {}))


def one_write(wname, sname, opt):
    """executed alone in a pristine interpreter (see pristine())"""
    w = new_writer(wname, opt)
    res, out = do_write(w, wname, make_set(sname), opt)
    return list(res) + [out[:400] if out else None]


_pristine_cache = {}


def pristine(wname, sname, opt):
    key = (wname, sname, json.dumps(opt, sort_keys=True))
    if key not in _pristine_cache:
        env = dict(os.environ)
        env["PYTHONHASHSEED"] = "0"
        env.pop("PYCAPTION_DEFAULT_LANG", None)
        code = "import sys,json,warnings; warnings.filterwarnings('ignore'); sys.path.insert(0,%r); from mc.checks import c09; print(json.dumps(c09.one_write(*json.loads(sys.argv[1]))))" % VERIF
        r = subprocess.run([sys.executable, "-B", "-c", code, json.dumps([wname, sname, opt])], capture_output=True, text=True, env=env)
        try:
            _pristine_cache[key] = json.loads(r.stdout.strip().splitlines()[-1])
        except Exception:  # noqa
            raise RuntimeError("pristine run failed: " + (r.stdout + r.stderr)[-800:])
    return _pristine_cache[key]


def hist_class(h2):
    """coarse class of a history for signatures"""
    earlier = [s for s, _ in h2[:-1]]
    if not earlier:
        return "first-write" + ("" if os.environ.get("PYTHONHASHSEED", "0") == "0" else "/hashseed-dependent")
    if any(s.startswith("unbalanced") for s in earlier):
        return "history-has-unclosed-span"
    if "px-novideo" in earlier:
        return "history-has-failed-write"
    return "after:" + earlier[-1]


def restore_globals():
    """reload pycaption so that later histories start from pristine process-global state"""
    for m in [m for m in sys.modules if m == "pycaption" or m.startswith("pycaption.")]:
        del sys.modules[m]
    import pycaption  # noqa: F401
    from pycaption.dfxp import extras  # noqa: F401


def probe_after_pollution(acc, wname, init, hist, ops, changed_keys):
    """after `hist` polluted the process: does any write of the menu, done with a fresh writer object, now differ?"""
    hit = False
    for sname, opt in ops:
        # every probe starts from exactly the state the history leaves behind (probes must not pollute each other)
        restore_globals()
        writer = new_writer(wname, {"init": init})
        pool = {}
        for s_, o_ in hist:
            pool.setdefault(s_, make_set(s_))
            do_write(writer, wname, pool[s_], o_)
        res, out = do_write(new_writer(wname, opt), wname, make_set(sname), opt)
        ref = pristine(wname, sname, opt)
        acc.transitions += 1
        if list(res) != ref[:2]:
            hit = True
            case = {"w": wname, "init": init, "hist": [[s_, o_] for s_, o_ in hist], "probe": [sname, opt], "_env": {"PYTHONHASHSEED": os.environ.get("PYTHONHASHSEED", "0")}}
            acc.violation(f"C09/{wname}/fresh-writer-output-differs-after-history/{hist_class(hist + [(sname, opt)])}", case, {"got": res, "pristine": ref[:2], "global_state_changed": changed_keys[:6]})
    return hit


def explore_writer(acc, wname, depth, states_out):
    """BFS over histories on one shared instance per option-set 'init' (constructor options make different instances)"""
    import pycaption  # noqa: F401  (load every pycaption module before the first global-state snapshot)
    from pycaption.dfxp import extras  # noqa: F401

    from mc import canon

    ops = [(s, o) for s in SETS for o in opts_for(wname)]
    inits = sorted({json.dumps(o.get("init", {}), sort_keys=True) for _, o in ops})
    for init_js in inits:
        init = json.loads(init_js)
        my_ops = [(s, o) for s, o in ops if json.dumps(o.get("init", {}), sort_keys=True) == init_js]
        seen = set()
        frontier = [[]]
        hits = 0
        probed = 0
        g0 = canon.global_state()
        for level in range(depth):
            nxt = []
            for hist in frontier:
                for op in my_ops:
                    h2 = hist + [op]
                    # replay the history on fresh objects
                    writer = new_writer(wname, {"init": init})
                    pool = {}
                    res = None
                    bad = False
                    for i, (sname, opt) in enumerate(h2):
                        if sname not in pool:
                            pool[sname] = make_set(sname)
                        last = i == len(h2) - 1
                        if last:
                            before = {k: canon.digest(v) for k, v in pool.items()}
                        res, out = do_write(writer, wname, pool[sname], opt)
                    acc.transitions += 1
                    acc.traces += 1
                    case = {"w": wname, "init": init, "hist": [[s, o] for s, o in h2], "_env": {"PYTHONHASHSEED": os.environ.get("PYTHONHASHSEED", "0")}}
                    after = {k: canon.digest(v) for k, v in pool.items()}
                    changed = [k for k in before if before[k] != after[k]]
                    if changed:
                        acc.violation(f"C09/{wname}/input-modified/{'+'.join(sorted(changed))}" + ("/writer-raised" if res[0] == "raises" else ""), case, {"changed_sets": changed, "result": res})
                        bad = True
                    sname, opt = h2[-1]
                    ref = pristine(wname, sname, opt)
                    if list(res) != ref[:2]:
                        acc.violation(f"C09/{wname}/output-differs-from-pristine-write/{hist_class(h2)}", case, {"got": res, "pristine": ref[:2], "pristine_head": ref[2], "got_head": out[:400] if out else None})
                        bad = True
                    g1 = canon.global_state()
                    if g1 != g0:
                        # the history changed process-global pycaption state: that alone is not a violation (a harmless
                        # cache would do the same); probe every write of the menu with FRESH writer objects in this
                        # process and compare with the pristine outputs
                        changed_keys = canon.diff_state(g0, g1)
                        if hits >= 3 or probed >= 5:
                            # the pollution has been demonstrated three times in this shard already, or five histories
                            # that change the process state were probed without any effect on an output (a harmless
                            # cache): further ones are not probed - it keeps such a tree from taking hours
                            hit = False
                            acc.count("histories_that_changed_global_state_not_probed")
                        else:
                            hit = probe_after_pollution(acc, wname, init, h2, ops, changed_keys)
                            hits += 1 if hit else 0
                            probed += 1
                            acc.count("histories_that_changed_global_state" + ("" if hit else "_but_no_output"))
                        bad = True
                        restore_globals()
                        g0 = canon.global_state()
                        g1 = g0
                    acc.case((wname, init_js, h2, os.environ.get("PYTHONHASHSEED")), len(h2) >= 2, res, {"writer": wname, "init": init, "history": h2, "result": res} if len(h2) == depth else None)
                    st = canon.digest((canon.dump(writer), sorted(g1.items())))
                    states_out.add(st)
                    if st not in seen and not bad:
                        seen.add(st)
                        nxt.append(h2)
            frontier = nxt


def cross_pairs(acc, states_out):
    """all ordered pairs: write with writer A (any set), then writer B (any set): B's output must equal its pristine output"""
    import pycaption  # noqa: F401
    from pycaption.dfxp import extras  # noqa: F401

    from mc import canon

    g0 = canon.global_state()
    for wa in WRITERS:
        for sa in ("plain", "unbalanced", "styled", "px-novideo"):
            for wb in WRITERS:
                if wa == wb:
                    continue
                for sb in ("plain", "spans", "styled"):
                    pool = {sa: make_set(sa)}
                    pool.setdefault(sb, make_set(sb))
                    do_write(new_writer(wa, {}), wa, pool[sa], {})
                    before = canon.digest(pool[sb])
                    res, out = do_write(new_writer(wb, {}), wb, pool[sb], {})
                    acc.transitions += 2
                    acc.traces += 1
                    case = {"cross": [wa, sa, wb, sb], "_env": {"PYTHONHASHSEED": os.environ.get("PYTHONHASHSEED", "0")}}
                    ref = pristine(wb, sb, {})
                    if list(res) != ref[:2]:
                        acc.violation(f"C09/{wb}/output-differs-after-other-writer/{wa}", case, {"got": res, "pristine": ref[:2]})
                    if canon.digest(pool[sb]) != before:
                        acc.violation(f"C09/{wb}/input-modified/{sb}", case, None)
                    g1 = canon.global_state()
                    if g1 != g0:
                        acc.count("cross_pairs_that_changed_global_state")
                        restore_globals()
                        g0 = canon.global_state()
                        g1 = g0
                    acc.case(("cross", wa, sa, wb, sb, os.environ.get("PYTHONHASHSEED")), True, res, None)
                    states_out.add(canon.digest(sorted(g1.items())))


def pristine_table():
    """every (writer, set, options) write done alone in a fresh interpreter (hash seed 0), computed once per run"""
    from concurrent.futures import ThreadPoolExecutor

    keys = [(w, s_, o) for w in WRITERS for s_ in SETS for o in opts_for(w)]
    with ThreadPoolExecutor(16) as ex:
        refs = list(ex.map(lambda k: pristine(*k), keys))
    return [[w, s_, json.dumps(o, sort_keys=True), r] for (w, s_, o), r in zip(keys, refs)]


def shards(tier, seed):
    sh = []
    table = pristine_table()
    for hs in SEEDS[tier]:
        for w in WRITERS:
            sh.append({"w": w, "depth": bounds(tier)["depth"] if hs == "0" else 2, "_env": {"PYTHONHASHSEED": hs}})
        sh.append({"w": None, "_env": {"PYTHONHASHSEED": hs}})
    for hs in SWEEP[tier]:
        if hs not in SEEDS[tier]:
            sh.append({"w": "*", "depth": 1, "_env": {"PYTHONHASHSEED": hs}})
    for d in sh:
        d["pristine"] = table
    return sh


def run_shard(d):
    acc = Acc()
    states = set()
    for w_, s_, optjs, r in d.get("pristine", []):
        _pristine_cache[(w_, s_, optjs)] = r
    if d["w"] == "*":
        for w in WRITERS:
            explore_writer(acc, w, 1, states)
    elif d["w"]:
        explore_writer(acc, d["w"], d["depth"], states)
    else:
        cross_pairs(acc, states)
    res = acc.result()
    res["extra"] = {"state_hashes": sorted(states)}
    return res


def finish(agg, tier, seed):
    u = set()
    for e in agg["extra"]:
        if e:
            u.update(e["state_hashes"])
    agg["states"] = len(u)


def replay(case):
    env = case.get("_env") or {}
    if env and any(os.environ.get(k) != v for k, v in env.items()):
        e = dict(os.environ)
        e.update(env)
        code = "import sys,json,warnings; warnings.filterwarnings('ignore'); sys.path.insert(0,%r); from mc.checks import c09; print(json.dumps(c09.replay(json.loads(sys.argv[1])), default=str))" % VERIF
        r = subprocess.run([sys.executable, "-B", "-c", code, json.dumps(case)], capture_output=True, text=True, env=e)
        try:
            return json.loads(r.stdout.strip().splitlines()[-1])
        except Exception:  # noqa
            return [{"sig": "_replay-error", "detail": (r.stdout + r.stderr)[-500:]}]
    from mc import canon

    acc = Acc()
    if "cross" in case:
        wa, sa, wb, sb = case["cross"]
        pool = {sa: make_set(sa)}
        pool.setdefault(sb, make_set(sb))
        g0 = canon.global_state()
        do_write(new_writer(wa, {}), wa, pool[sa], {})
        before = canon.digest(pool[sb])
        res, out = do_write(new_writer(wb, {}), wb, pool[sb], {})
        ref = pristine(wb, sb, {})
        outv = []
        if list(res) != ref[:2]:
            outv.append({"sig": f"C09/{wb}/output-differs-after-other-writer/{wa}", "detail": {"got": res, "pristine": ref[:2]}})
        if canon.digest(pool[sb]) != before:
            outv.append({"sig": f"C09/{wb}/input-modified/{sb}", "detail": None})
        return outv
    wname, init = case["w"], case["init"]
    h2 = [(s, o) for s, o in case["hist"]]
    if "probe" in case:
        writer = new_writer(wname, {"init": init})
        pool = {}
        for sname, opt in h2:
            pool.setdefault(sname, make_set(sname))
            do_write(writer, wname, pool[sname], opt)
        sname, opt = case["probe"]
        res, out = do_write(new_writer(wname, opt), wname, make_set(sname), opt)
        ref = pristine(wname, sname, opt)
        if list(res) != ref[:2]:
            return [{"sig": f"C09/{wname}/fresh-writer-output-differs-after-history/{hist_class(h2 + [(sname, opt)])}", "detail": {"got": res, "pristine": ref[:2]}}]
        return []
    g0 = canon.global_state()
    writer = new_writer(wname, {"init": init})
    pool = {}
    outv = []
    for i, (sname, opt) in enumerate(h2):
        if sname not in pool:
            pool[sname] = make_set(sname)
        if i == len(h2) - 1:
            before = {k: canon.digest(v) for k, v in pool.items()}
        res, out = do_write(writer, wname, pool[sname], opt)
    after = {k: canon.digest(v) for k, v in pool.items()}
    changed = [k for k in before if before[k] != after[k]]
    if changed:
        outv.append({"sig": f"C09/{wname}/input-modified/{'+'.join(sorted(changed))}" + ("/writer-raised" if res[0] == "raises" else ""), "detail": {"changed_sets": changed}})
    sname, opt = h2[-1]
    ref = pristine(wname, sname, opt)
    if list(res) != ref[:2]:
        outv.append({"sig": f"C09/{wname}/output-differs-from-pristine-write/{hist_class(h2)}", "detail": {"got": res, "pristine": ref[:2]}})
    return outv
