"""C16  Roll-up and paint-on SCC text is conserved and ordered.

Exhaustive exploration of roll-up (2/3/4 rows) and paint-on programs: 1..N rows, each row a distinct text of one of
three shapes, base-row variants, roll-up command on every line or only on the first, single/doubled codes, drop /
non-drop timecode, inter-line gaps {contiguous, +1 frame, +1 s}, and mode switches (roll-up / paint-on / pop-on
segments in sequence). Reference model: the list of transmitted rows. Oracle: concatenated returned text == transmitted
displayable characters, each once, in order; every row's text is one intact line of one caption; captions sorted by
start, start < end, end[i] == start[i+1] (within roll-up / paint-on streams).
"""
import itertools

from mc import shared
from mc.acc import Acc, h8
from mc.ref import cea608 as C

ID = "C16"
LEVEL = "model_checking"
RULE = (
    "programs = mode (RU2/RU3/RU4/paint-on) x row count 1..N x text-shape assignment (3 shapes per row, distinct letters) x base-row "
    "pattern x command repetition x single/doubled x drop/non-drop x gap; plus all ordered pairs/triples of mode segments. model = list "
    "of transmitted rows; states = distinct (mode, rows transmitted so far) model states; transitions = rows; traces = programs run "
    "on the real reader. non-trivial = at least one row of text"
)
ASSUMPTIONS = [
    "each paint-on segment addresses one row or two adjacent rows (non-adjacent rows in one segment become captions sharing their times, which the chaining clause does not describe)",
    "mode-switch programs are judged on conservation, order and start<=end only",
    "text comparison ignores spaces for the global order and is whitespace-normalised per row",
    "the solid block (0x7f) is left out of the character-table rows: pycaption decodes it as nothing by design",
]
TRUSTED = ["mc.ref.cea608 encoder"]
MANIFEST = {
    "technique": "exhaustive enumeration of roll-up / paint-on programs and mode-switch sequences within bounds; reference list model of transmitted rows compared with the real SCCReader's captions",
    "text": "All programs in the bounded family are read by the real reader; character conservation, row integrity, ordering and exact end-to-start chaining are checked on each.",
    "note": "Bounds: rows per stream, three text shapes, three gaps, segment sequences up to length 2 (quick) / 3 (thorough).",
}
SHAPES = [lambda L: L + L.lower() + L + L.lower(), lambda L: L + L.lower() + " " + L + "d", lambda L: L, lambda L: (L + L.lower()) * 16, lambda L: "  " + L + L.lower() + " x", lambda L: L + "\u00c1" + L.lower() + "\u266a\u00f1 \u00fc" + L]
# SHAPES[6]: 28 consecutive characters of the basic character table (all of it over five rows), after the letter
_TABLE = "".join(C.BASIC[c] for c in range(0x21, 0x7F))  # without 0x7f (solid block), which pycaption decodes as nothing by design
SHAPES.append(lambda L: L + _TABLE[("ABCDEFGHJK".index(L) % 5) * 19 :][:28])
LETTERS = "ABCDEFGHJK"
GAPS = [0, 1, 30]


def bounds(tier):
    return {"max_rows": 5 if tier == "quick" else 8, "segments": 2 if tier == "quick" else 3}


def tc(fr, sep):
    s = fr // 30
    return f"{s // 3600:02d}:{(s // 60) % 60:02d}:{s % 60:02d}{sep}{fr % 30:02d}"


def seg_lines(seg, d):
    """-> list of word lists (one per SCC line) and list of transmitted row texts"""
    kind = seg[0]
    lines, rows = [], []
    if kind == "roll":
        _, depth, texts, base_pat, every = seg
        cmd = {2: C.RU2, 3: C.RU3, 4: C.RU4}[depth]
        for i, t in enumerate(texts):
            base = 15 if base_pat == 0 else (14 if base_pat == 1 else (15 if i % 2 == 0 else 14))
            w = []
            if every or i == 0:
                w += [cmd] * d
            w += [C.CR] * d + [C.pac(base, 0 if base_pat != 3 else 4)] * d + C.text_words(t, d)
            lines.append(w)
            rows.append(t)
    elif kind == "paint":
        _, segs = seg
        for rowspec in segs:
            w = [C.RDC] * d
            for row, t in rowspec:
                w += [C.pac(row, 0)] * d + C.text_words(t, d)
                rows.append(t)
            lines.append(w)
    else:
        _, t = seg
        lines.append([C.ENM] * d + [C.RCL] * d + [C.pac(15, 0)] * d + C.text_words(t, d) + [C.EDM] * d + [C.EOC] * d)
        rows.append(t)
    return lines, rows


VARIANT_NAMES = {1: "extra-blanks-between-code-words", 2: "extra-blanks-between-code-words", 3: "across-the-first-hour", 4: "lang-option", 5: "crlf-line-ends", 6: "blank-only-separator-lines",
                 7: "line-cut-between-the-copies-of-a-doubled-code"}


def _cut_point(words):
    """index k such that words[k-1] == words[k] is a doubled control code: the last doubled special / extended character
    of the line if there is one, else the last doubled control code; None if nothing is doubled"""
    best = None
    for k in range(1, len(words)):
        if words[k] == words[k - 1] and (int(words[k][:2], 16) & 0x7F) in range(0x10, 0x20):
            b1, b2 = int(words[k][:2], 16) & 0x7F, int(words[k][2:], 16) & 0x7F
            is_char = (b1 & 0x77) in (0x11, 0x12, 0x13) and 0x20 <= b2 <= 0x3F and not (b1 & 0x77 == 0x11 and b2 < 0x30)
            if is_char or best is None or not best[1]:
                best = (k, is_char)
    return best[0] if best else None


def build(segs, d, sep, gap, spacing=0):
    """spacing (variant): 1 / 2 extra blanks, 3 the program starts shortly before 01:00:00, 4 read with lang=, 5 CR LF line ends"""
    out = ["Scenarist_SCC V1.0", ""]
    t = 30 if spacing != 3 else 3599 * 30 + 20
    rows = []
    nl = 0
    for seg in segs:
        lines, r = seg_lines(seg, d)
        rows += r
        for w in lines:
            # spacing 1: two blanks in every third gap between code words; 2: a trailing blank (blanks are not code words)
            body = "".join(x + ("  " if k % 3 == 1 else " ") for k, x in enumerate(w)).rstrip(" ") if spacing == 1 else " ".join(w) + (" " if spacing == 2 else "")
            k = _cut_point(w) if spacing == 7 else None
            if k is not None:
                # the second copy of a doubled code opens a new line, one frame after the first copy
                out += [tc(t, sep) + "\t" + " ".join(w[:k]), "", tc(t + k, sep) + "\t" + " ".join(w[k:]), ""]
            else:
                out.append(tc(t, sep) + "\t" + body)
                out.append("")
            t += len(w) + gap
            nl += 1
    if spacing == 6:
        # the separator lines (and the last line of the file) hold blanks instead of being empty
        out = [x if x else "   " for x in out] + ["  "]
    return ("\r\n" if spacing == 5 else "\n").join(out), rows


# documents the reader refuses (a 40-column row; a mangled timecode in the middle): used as earlier reads of a reused reader
REJECTED_DOC = "Scenarist_SCC V1.0\n\n00:00:01:00\t9425 94ad 9470 " + " ".join([C.chars("w", "w")] * 20) + "\n\n00:00:03:00\t9425 94ad 9470 " + C.chars("o", "k") + "\n"
MANGLED_DOC = "Scenarist_SCC V1.0\n\n00:00:01:00\t9425 94ad 9470 " + C.chars("o", "k") + "\n\n00:00:0x:00\t9425 94ad 9470 " + C.chars("n", "o") + "\n"


def evaluate(segs, d, sep, gap, chain, disturb=False, spacing=0):
    from pycaption import SCCReader

    doc, rows = build(segs, d, sep, gap, spacing)
    v = []
    if disturb:
        # reuse runs only: the shared reader first reads the document with non-default options (result ignored); with a
        # new reader per call this has no effect on the read that is judged
        for bad_doc, kw in ((doc, {"offset": 20, "simulate_roll_up": True}), (REJECTED_DOC, {}), (MANGLED_DOC, {})):
            try:
                shared.obj(SCCReader).read(bad_doc, **kw)
            except Exception:  # noqa
                pass
    try:
        cs = shared.obj(SCCReader).read(doc, lang="de-DE") if spacing == 4 else shared.obj(SCCReader).read(doc)
        caps = list(cs.get_captions("de-DE" if spacing == 4 else "en-US"))
    except Exception as e:  # noqa
        if not chain and type(e).__name__ == "CaptionReadTimingError":
            # a pop-on caption wiped by an immediate mode switch is displayed for less than 0.05 s: documented rejection (C06)
            return [], "rejected-flash"
        return [(f"raises:{type(e).__name__}", {"err": str(e)[:200], "doc": doc})], "raises"
    got_lines = []
    raw_lines = []
    for c in caps:
        cur = ""
        cl = []
        for n in c.nodes:
            if n.type_ == 1:
                cur += n.content
            elif n.type_ == 3:
                cl.append(cur)
                cur = ""
        cl.append(cur)
        got_lines.append([" ".join(l.split()) for l in cl])
        raw_lines += cl
    sent = "".join("".join(r.split()) for r in rows)
    got = "".join("".join(l.split()) for cl in got_lines for l in cl)
    if got != sent:
        kind = "characters-lost" if len(got) < len(sent) else ("characters-duplicated" if len(got) > len(sent) else "characters-reordered")
        v.append((kind, {"got": got, "sent": sent, "doc": doc}))
    else:
        flat = [l for cl in got_lines for l in cl]
        for r in rows:
            if r.strip() and " ".join(r.split()) not in flat:
                v.append(("row-split", {"row": r, "lines": got_lines, "doc": doc}))
                break
        else:
            # blanks transmitted in front of a row's text are characters too (indentation): the row comes out with them
            for r in rows:
                lead = len(r) - len(r.lstrip(" "))
                if lead and not any(x.rstrip() == r.rstrip() for x in raw_lines):
                    v.append(("leading-blanks-of-a-row-lost", {"row": r, "lines": raw_lines, "doc": doc}))
                    break
    times = [(c.start, c.end) for c in caps]
    for i, (s, e) in enumerate(times):
        if not (s < e):
            v.append(("start-not-before-end", {"times": times, "doc": doc}))
            break
    for i in range(len(times) - 1):
        if times[i][0] > times[i + 1][0]:
            v.append(("not-sorted-by-start", {"times": times, "doc": doc}))
            break
        if chain and times[i][1] != times[i + 1][0]:
            v.append(("end-not-equal-next-start", {"i": i, "times": times, "doc": doc}))
            break
    return v, (len(caps), got)


def texts_for(shapes):
    return [SHAPES[s](LETTERS[i]) for i, s in enumerate(shapes)]


def reuse_items():
    items = []
    menu = seg_menu()
    i = 0
    for a in menu:
        for b in menu:
            items.append((relabel([a, b]), 1 + i % 2, ":;"[i % 2], GAPS[i % 3], False))
            items.append((relabel([a]), 1 + i % 2, ":", GAPS[(i + 1) % 3], a[0] != "pop", i % 3 == 0))
            i += 1
    return items


def reuse_eval(item):
    v, out = evaluate(*item)
    return [(f"C16/reuse-run/{kind}", det) for kind, det in v], out


def shards(tier, seed):
    b = bounds(tier)
    sh = [{"k": "reuse"}]
    for depth in (2, 3, 4):
        for n in range(1, b["max_rows"] + 1):
            sh.append({"k": "roll", "depth": depth, "n": n})
    for n in range(1, min(b["max_rows"], 6) + 1):
        sh.append({"k": "paint", "n": n})
    for a in range(6):
        sh.append({"k": "switch", "first": a, "len": b["segments"]})
    return sh


def seg_menu():
    t = texts_for
    return [
        ("roll", 2, t([0, 1]), 0, True),
        ("roll", 3, t([0, 1, 2]), 0, False),
        ("roll", 4, t([2, 0]), 1, True),
        ("paint", [[(15, "Pa")], [(14, "Pb pb"), (15, "Pc")]]),
        ("paint", [[(1, "Q")]]),
        ("pop", "Zz zz"),
    ]


def relabel(segs):
    """make the texts of all segments distinct"""
    out = []
    k = 0
    for seg in segs:
        if seg[0] == "roll":
            texts = []
            for t in seg[2]:
                texts.append(t.replace(t[0], LETTERS[k % 10]).replace(t[0].lower(), LETTERS[k % 10].lower()))
                k += 1
            out.append(("roll", seg[1], texts, seg[3], seg[4]))
        elif seg[0] == "paint":
            ss = []
            for rowspec in seg[1]:
                rs = []
                for row, t in rowspec:
                    rs.append((row, LETTERS[k % 10] + t[1:]))
                    k += 1
                ss.append(rs)
            out.append(("paint", ss))
        else:
            out.append(("pop", LETTERS[k % 10] + seg[1][1:]))
            k += 1
    return out


def run_shard(d):
    acc = Acc()
    states = set()

    def run(segs, dd, sep, gap, chain, klass, spacing=0):
        v, out = evaluate(segs, dd, sep, gap, chain, False, spacing)
        acc.traces += 1
        nrows = sum(len(seg_lines(s, 1)[1]) for s in segs)
        acc.transitions += nrows
        for i in range(nrows + 1):
            states.add(h8((klass, [s[0:2] for s in segs], i)))
        acc.case((segs, dd, sep, gap, spacing), nrows > 0, out, {"segments": segs, "doubled": dd == 2, "separator": sep, "gap_frames": gap, "blank_spacing_variant": spacing})
        for kind, det in v:
            acc.violation(f"C16/{klass}/{kind}" + ("/" + VARIANT_NAMES[spacing] if spacing else ""), {"segs": segs, "d": dd, "sep": sep, "gap": gap, "chain": chain, "klass": klass, "spacing": spacing}, det)
        if spacing == 0 and dd == 1 and gap == GAPS[0] and sep == ":":
            for variant in (1, 2, 3, 4, 5, 6):
                run(segs, dd, sep, gap, chain, klass, variant)
        if spacing == 0 and dd == 2 and gap == GAPS[0] and sep == ":":
            run(segs, dd, sep, gap, chain, klass, 7)

    if d["k"] == "reuse":
        shared.run(acc, reuse_items(), reuse_eval, sample=lambda it: {"reuse_run_step": list(it)})
    elif d["k"] == "roll":
        n = d["n"]
        shape_sets = list(itertools.product(range(3), repeat=n)) if n <= 4 else [tuple((i + j) % 3 for i in range(n)) for j in range(3)] + [tuple([0] * n), tuple([2] * n)]
        shape_sets += [tuple(3 if i == j else (i % 3) for i in range(n)) for j in range(n)]  # one row uses all 32 columns
        shape_sets += [tuple(4 if i == j else (i % 3) for i in range(n)) for j in range(n)] + [tuple([4] * n)]  # indented rows
        shape_sets += [tuple(5 if i == j else (i % 3) for i in range(n)) for j in range(n)] + [tuple([5] * n)]  # special / extended characters
        shape_sets += [tuple([6] * n)]  # the basic character table
        for shapes in shape_sets:
            for base_pat in (0, 1, 2, 3):
                for every in (True, False):
                    for dd in (1, 2):
                        for sep in (":", ";"):
                            for gap in GAPS:
                                run([("roll", d["depth"], texts_for(shapes), base_pat, every)], dd, sep, gap, True, f"roll-up{d['depth']}")
    elif d["k"] == "paint":
        n = d["n"]
        rowpats = [[15] * n, [14, 15] * n, list(range(1, 16))]
        shape_sets = list(itertools.product(range(3), repeat=n)) if n <= 4 else [tuple((i + j) % 3 for i in range(n)) for j in range(3)]
        shape_sets += [tuple(3 if i == j else (i % 3) for i in range(n)) for j in range(n)]
        shape_sets += [tuple(4 if i == j else (i % 3) for i in range(n)) for j in range(n)] + [tuple([4] * n)]  # indented rows
        shape_sets += [tuple(5 if i == j else (i % 3) for i in range(n)) for j in range(n)] + [tuple([5] * n)]  # special / extended characters
        shape_sets += [tuple([6] * n)]  # the basic character table
        for shapes in shape_sets:
            texts = texts_for(shapes)
            # non-adjacent rows painted after one RDC: captions sharing their times (no chaining clause, but
            # conservation, order and start < end still hold)
            if n >= 2:
                rows_na = [1, 5, 9, 13, 3, 11, 7, 15][:n]
                for dd in (1, 2):
                    for final_rdc in (False, True):
                        segs = [[(r, t) for r, t in zip(rows_na, texts)]] + ([[(15, "Zz")]] if final_rdc else [])
                        run([("paint", segs)], dd, ":", 30, False, "paint-on-non-adjacent-rows")
            if n >= 2:
                # a row that is addressed but gets no text, directly below (or above) a row with text, then a row elsewhere
                for r0, r1, r2 in ((5, 6, 10), (10, 11, 3), (6, 5, 12), (14, 15, 1)):
                    for dd in (1, 2):
                        run([("paint", [[(r0, texts[0]), (r1, ""), (r2, texts[1])]])], dd, ":", 30, False, "paint-on-row-without-text")
                        run([("paint", [[(r0, texts[0])], [(r1, ""), (r2, texts[1])]])], dd, ":", 30, False, "paint-on-row-without-text")
            for rp in rowpats:
                for two in (False, True):
                    segs = []
                    i = 0
                    while i < n:
                        if two and i + 1 < n and rp[i] < 15:
                            segs.append([(rp[i], texts[i]), (rp[i] + 1, texts[i + 1])])
                            i += 2
                        else:
                            segs.append([(rp[i], texts[i])])
                            i += 1
                    for dd in (1, 2):
                        for sep in (":", ";"):
                            for gap in GAPS:
                                run([("paint", segs)], dd, sep, gap, True, "paint-on")
    else:
        menu = seg_menu()
        first = menu[d["first"]]
        for ln in range(1, d["len"]):
            for rest in itertools.product(menu, repeat=ln):
                segs = relabel([first] + list(rest))
                for dd in (1, 2):
                    for gap in (0, 30):
                        run(segs, dd, ":", gap, False, "mode-switch")
        if d["len"] < 3:
            # (quick tier) back to the first mode after one segment in another mode
            for mid in menu:
                for last in menu:
                    if mid[0] != first[0] and last[0] == first[0]:
                        segs = relabel([first, mid, last])
                        for dd in (1, 2):
                            for gap in (0, 30):
                                run(segs, dd, ":", gap, False, "mode-switch")
    res = acc.result()
    res["extra"] = {"state_hashes": sorted(states)}
    return res


def finish(agg, tier, seed):
    u = set()
    for e in agg["extra"]:
        if e:
            u.update(e["state_hashes"])
    agg["states"] = len(u)


def _t(x):
    return tuple(_t(i) for i in x) if isinstance(x, list) else x


def replay(case):
    if case.get("reuse"):
        return shared.replay(reuse_items(), reuse_eval, case["index"])
    segs = []
    for s in case["segs"]:
        if s[0] == "roll":
            segs.append(("roll", s[1], list(s[2]), s[3], s[4]))
        elif s[0] == "paint":
            segs.append(("paint", [[tuple(x) for x in rs] for rs in s[1]]))
        else:
            segs.append(("pop", s[1]))
    sp = case.get("spacing", 0)
    v, _ = evaluate(segs, case["d"], case["sep"], case["gap"], case["chain"], False, sp)
    return [{"sig": f"C16/{case['klass']}/{k}" + ("/" + VARIANT_NAMES[sp] if sp else ""), "detail": det} for k, det in v]
