"""C11  Italic, bold and underline spans survive conversion and stay balanced.

E3: captions of 1-2 lines x 1-3 text nodes with ALL placements of one or two flat, non-nesting style spans on node
boundaries (start/end of line, across a break, adjacent, empty) x style sets {i, b, u, i+b, i+b+u, class-only}; routes
DFXP->DFXP, SAMI->SAMI, DFXP->SAMI, SAMI->DFXP and ->WebVTT (directly and after a DFXP / SAMI hop). Oracle: per visible
character the (italic, bold, underline) flags, where the target carries the flag; emitted markup balanced and properly
nested (strict XML for DFXP, tag-stack checks for SAMI and WebVTT); reader results have balanced STYLE nodes.
"""
import itertools

from mc import shared
from mc.acc import Acc
from mc.ref import parsers

ID = "C11"
LEVEL = "exploration"
RULE = (
    "all node-list shapes (1-2 lines x 1-3 text nodes) x all placements of one span (a<=b) and of two non-overlapping spans "
    "(a<=b<=c<=d) over the node boundaries x style sets x 7 routes. distinct = distinct (caption, route); non-trivial = caption "
    "has at least one styled character or an empty span"
)
ASSUMPTIONS = [
    "spans are flat (no nesting) and balanced in the input; layouts, where present, are constant within a span",
    "SCC reader results are checked on italics-focused pop-on programs with the reference decoder of C05 (balance and per-character flags)",
    "DFXP carries italics only: bold/underline are compared on SAMI and WebVTT targets only",
    "visible characters are compared ignoring whitespace (writers join text nodes differently)",
]
TRUSTED = ["lxml strict XML parser", "html.parser", "mc.ref.parsers WebVTT cue-text tokenizer"]
MANIFEST = {
    "technique": "bounded-exhaustive enumeration of span placements x style sets x conversion routes; oracle = per-character style flags computed from the input and tag-balance checks by independent parsers",
    "text": "Every placement of one or two flat spans in the bounded caption shapes is pushed through every route on the real writers/readers; per-character flags and markup balance are compared with the reference.",
    "note": "Caption shapes are bounded (<= 2 lines x 3 nodes, <= 2 spans); style sets are the six listed.",
}

STYLES = {
    "i": {"italics": True},
    "b": {"bold": True},
    "u": {"underline": True},
    "ib": {"italics": True, "bold": True},
    "ibu": {"italics": True, "bold": True, "underline": True},
    "cls": {"class": "myclass"},
}
# a span that only refers to a class the set defines as italic + bold: WebVTT output resolves the reference and wraps the
# text in i and b tags (route "vtt" only; what a reference means after a DFXP / SAMI round trip is not part of the property)
CLASS_REF = {"Cls": ({"class": "EmphasisStyle"}, {"italics": True, "bold": True})}
PAIRS_QUICK = [("i", "i"), ("i", "b"), ("b", "u"), ("ib", "u"), ("cls", "i"), ("ibu", "i"), ("i", "cls"), ("i", "ib"), ("u", "ibu")]
# "dfxp-single" / "dfxp-legacy": DFXP written by SinglePositioningDFXPWriter / LegacyDFXPWriter (read by the one DFXP reader)
# "dfxp-inline": DFXPWriter(write_inline_positioning=True)
ROUTES = ["dfxp", "sami", "dfxp>sami", "sami>dfxp", "vtt", "dfxp>vtt", "sami>vtt", "dfxp-single", "dfxp-legacy", "sami>dfxp-legacy", "dfxp-inline", "sami>dfxp-inline"]


def bounds(tier):
    return {"max_lines": 2, "max_nodes_per_line": 3, "max_spans": 2, "style_sets": list(STYLES), "two_span_style_pairs": len(PAIRS_QUICK) if tier == "quick" else 36}


def shapes():
    out = []
    for n1 in (1, 2, 3):
        out.append((n1,))
    for n1 in (1, 2, 3):
        for n2 in (1, 2, 3):
            out.append((n1, n2))
    return out


def atoms(shape):
    """flat list: ('t', text) / ('b',)"""
    out = []
    k = 0
    for li, n in enumerate(shape):
        if li:
            out.append(("b",))
        for _ in range(n):
            out.append(("t", "w%d" % k + "xyz"[k % 3]))
            k += 1
    return out


def _layouts(mode):
    from pycaption.geometry import Layout, Point, Size, UnitEnum

    from pycaption.geometry import Padding

    P = UnitEnum.PERCENT
    # the shared layout has paddings that differ on every side (a layout equals itself whatever its components are)
    la = Layout(origin=Point(Size(10, P), Size(10, P)), padding=Padding(before=Size(1, P), after=Size(2, P), start=Size(5, P), end=Size(10, P)))
    lb = Layout(origin=Point(Size(20, P), Size(70, P)))
    if mode == "same":
        # equal layouts, not the identical object: what a reader returns for two spans in one region
        la2 = Layout(origin=Point(Size(10, P), Size(10, P)), padding=Padding(before=Size(1, P), after=Size(2, P), start=Size(5, P), end=Size(10, P)))
        return [la, la2]
    return [la, lb]


def _sty(st):
    return dict(CLASS_REF[st][0]) if st in CLASS_REF else dict(STYLES[st])


def build(shape, spans, lay=None):
    """spans: [(start_pos, end_pos, style_key)] positions over the atom list (0..len); lay: None | 'same' | 'diff':
    the nodes of span k (its STYLE nodes and what is inside) carry layout k"""
    from pycaption import Caption, CaptionList, CaptionNode, CaptionSet

    at = atoms(shape)
    nodes = []
    if lay:
        return _build_lay(shape, spans, lay)
    for pos in range(len(at) + 1):
        for a, b, st in spans:
            if b == pos and a != pos:
                nodes.append(CaptionNode.create_style(False, _sty(st)))
        for a, b, st in spans:
            if a == pos:
                nodes.append(CaptionNode.create_style(True, _sty(st)))
                if b == pos:
                    nodes.append(CaptionNode.create_style(False, _sty(st)))
        if pos < len(at):
            if at[pos][0] == "t":
                nodes.append(CaptionNode.create_text(at[pos][1]))
            else:
                nodes.append(CaptionNode.create_break())
    cs = CaptionSet({"en-US": CaptionList([Caption(1000000, 2000000, nodes)])})
    cs.add_style("myclass", {"color": "red"})
    cs.set_styles(dict(list(cs.get_styles()) + [("EmphasisStyle", {"italics": True, "bold": True})]))  # one style arrives through add_style, one through set_styles
    return cs


def _build_lay(shape, spans, lay):
    from pycaption import Caption, CaptionList, CaptionNode, CaptionSet

    at = atoms(shape)
    L = _layouts(lay)
    nodes = []

    def lay_at(pos):
        for k, (a, b, st) in enumerate(spans):
            if a <= pos < b:
                return L[k]
        return None

    for pos in range(len(at) + 1):
        for k, (a, b, st) in enumerate(spans):
            if b == pos and a != pos:
                nodes.append(CaptionNode.create_style(False, _sty(st), layout_info=L[k]))
        for k, (a, b, st) in enumerate(spans):
            if a == pos:
                nodes.append(CaptionNode.create_style(True, _sty(st), layout_info=L[k]))
                if b == pos:
                    nodes.append(CaptionNode.create_style(False, _sty(st), layout_info=L[k]))
        if pos < len(at):
            if at[pos][0] == "t":
                nodes.append(CaptionNode.create_text(at[pos][1], layout_info=lay_at(pos)))
            else:
                nodes.append(CaptionNode.create_break(layout_info=lay_at(pos)))
    cs = CaptionSet({"en-US": CaptionList([Caption(1000000, 2000000, nodes)])})
    cs.add_style("myclass", {"color": "red"})
    cs.set_styles(dict(list(cs.get_styles()) + [("EmphasisStyle", {"italics": True, "bold": True})]))  # one style arrives through add_style, one through set_styles
    return cs


def expected_flags(shape, spans):
    at = atoms(shape)
    out = []
    for pos, a in enumerate(at):
        if a[0] != "t":
            continue
        fl = set()
        for s, e, st in spans:
            if s <= pos < e:
                fl |= {k for k in ("italics", "bold", "underline") if (CLASS_REF[st][1] if st in CLASS_REF else STYLES[st]).get(k)}
        for ch in a[1]:
            out.append((ch, frozenset(fl)))
    return out


def caption_flags(caption):
    """-> ([(char, flags)], balanced)"""
    out = []
    depth = {"italics": 0, "bold": 0, "underline": 0}
    opened = 0
    balanced = True
    for n in caption.nodes:
        if n.type_ == 2:
            c = n.content if isinstance(n.content, dict) else {}
            if n.start:
                opened += 1
                for k in depth:
                    if c.get(k):
                        depth[k] += 1
            else:
                opened -= 1
                if opened < 0:
                    balanced = False
                    opened = 0
                for k in depth:
                    if c.get(k):
                        depth[k] -= 1
                        if depth[k] < 0:
                            balanced = False
                            depth[k] = 0
        elif n.type_ == 1:
            fl = frozenset(k for k, v in depth.items() if v > 0)
            for ch in n.content:
                if not ch.isspace():
                    out.append((ch, fl))
    if opened != 0 or any(depth.values()):
        balanced = False
    return out, balanced


def vtt_flags(doc):
    """-> ([(char, flags)], balance errors)"""
    cues = parsers.parse_vtt(doc)
    out, errors = [], []
    for cue in cues:
        stack = []
        for raw in cue["raw_lines"]:
            i = 0
            while i < len(raw):
                if raw[i] == "<":
                    j = raw.find(">", i)
                    if j < 0:
                        errors.append("unterminated tag")
                        break
                    tag = raw[i + 1 : j]
                    if tag.startswith("/"):
                        if not stack or stack[-1] != tag[1:]:
                            errors.append(f"misnested </{tag[1:]}> (open: {stack})")
                            if tag[1:] in stack:
                                while stack and stack[-1] != tag[1:]:
                                    stack.pop()
                                stack.pop()
                        else:
                            stack.pop()
                    else:
                        stack.append(tag.split(".")[0].split(" ")[0])
                    i = j + 1
                else:
                    if raw[i] == "&":
                        j = raw.find(";", i)
                        txt, _ = parsers.vtt_cue_text(raw[i : j + 1] if j > 0 else raw[i])
                        i = (j + 1) if j > 0 else i + 1
                    else:
                        txt = raw[i]
                        i += 1
                    fl = frozenset({"i": "italics", "b": "bold", "u": "underline"}[t] for t in stack if t in ("i", "b", "u"))
                    for ch in txt:
                        if not ch.isspace():
                            out.append((ch, fl))
        if stack:
            errors.append(f"unclosed tags at end of cue: {stack}")
    return out, errors


def run_route(route, shape, spans, lay=None):
    """-> list of (kind, detail), outcome"""
    import pycaption

    exp = expected_flags(shape, spans)
    cs = build(shape, spans, lay)
    v = []
    carried = {"italics", "bold", "underline"}
    hops = route.split(">")
    doc = None
    for hop in hops:
        try:
            if hop.startswith("dfxp"):
                from pycaption.dfxp import extras

                if hop == "dfxp-inline":
                    doc = shared.obj(pycaption.DFXPWriter, write_inline_positioning=True).write(cs)
                else:
                    doc = shared.obj({"dfxp": pycaption.DFXPWriter, "dfxp-single": extras.SinglePositioningDFXPWriter, "dfxp-legacy": extras.LegacyDFXPWriter}[hop]).write(cs)
                try:
                    parsers.parse_ttml(doc)
                except parsers.ParseError as e:
                    return [("dfxp-markup-unbalanced", {"err": str(e)[:200], "doc": doc[-700:]})], "unbalanced"
                cs = shared.obj(pycaption.DFXPReader).read(doc)
                carried &= {"italics"}
            elif hop == "sami":
                doc = shared.obj(pycaption.SAMIWriter).write(cs)
                s = parsers.parse_sami(doc)
                if s["markup_errors"]:
                    return [("sami-markup-unbalanced", {"err": s["markup_errors"][:3], "doc": doc[-700:]})], "unbalanced"
                cs = shared.obj(pycaption.SAMIReader).read(doc)
            else:
                doc = shared.obj(pycaption.WebVTTWriter).write(cs)
                got, errors = vtt_flags(doc)
                if errors:
                    return [("vtt-tags-unbalanced", {"err": errors[:3], "doc": doc})], "unbalanced"
                want = [(ch, frozenset(f & carried)) for ch, f in exp]
                if got != want:
                    kind = "vtt-characters-differ" if [c for c, _ in got] != [c for c, _ in want] else "vtt-flags-differ"
                    v.append((kind, {"got": show(got), "want": show(want), "doc": doc}))
                return v, tuple(sorted(f) for _, f in got)
        except Exception as e:  # noqa
            return [(f"raises:{type(e).__name__}@{hop}", {"err": str(e)[:300]})], "raises"
        caps = cs.get_captions(cs.get_languages()[0])
        if len(caps) != 1:
            return [("caption-count", {"got": len(caps)})], "count"
        lay = None
        got, balanced = caption_flags(caps[0])
        if not balanced:
            v.append((f"reader-style-nodes-unbalanced@{hop}", {"nodes": repr(caps[0].nodes)[:400], "doc": doc[-600:]}))
        want = [(ch, frozenset(f & carried)) for ch, f in exp]
        got_c = [(ch, frozenset(f & carried)) for ch, f in got]
        if got_c != want:
            kind = f"characters-differ@{hop}" if [c for c, _ in got_c] != [c for c, _ in want] else f"flags-differ@{hop}"
            v.append((kind, {"got": show(got_c), "want": show(want), "doc": doc[-700:]}))
            return v, "differ"
    return v, tuple(sorted(f) for _, f in got)


def show(seq):
    return "".join(ch + ("[" + "".join(sorted(x[0] for x in f)) + "]" if f else "") for ch, f in seq)


def placement_class(shape, spans):
    at = atoms(shape)
    f = set()
    for a, b, st in spans:
        if a == b:
            f.add("empty-span")
        elif any(at[p][0] == "b" for p in range(a, b)):
            f.add("across-break")
        if st == "cls":
            f.add("class-only")
    if len(spans) == 2 and spans[0][1] == spans[1][0]:
        f.add("adjacent")
    return "+".join(sorted(f)) or "plain"


def span_sets(shape, tier):
    n = len(atoms(shape))
    for a in range(n + 1):
        for b in range(a, n + 1):
            for st in STYLES:
                yield [(a, b, st)]
    pairs = PAIRS_QUICK if tier == "quick" else list(itertools.product(STYLES, repeat=2))
    for a in range(n + 1):
        for b in range(a, n + 1):
            for c in range(b, n + 1):
                for d in range(c, n + 1):
                    if a == b == c == d:
                        continue  # two empty spans at one boundary: emission order of their nodes is arbitrary
                    for s1, s2 in pairs:
                        yield [(a, b, s1), (c, d, s2)]


def reuse_items():
    items = []
    i = 0
    for shape in shapes()[::3]:
        for spans in list(span_sets(shape, "quick"))[::41]:
            for route in ROUTES:
                lay = [None, "same", "diff"][i % 3] if len(spans) == 2 and spans[0][0] < spans[0][1] and spans[1][0] < spans[1][1] else None
                items.append((route, shape, spans, lay))
                i += 1
    return items


def reuse_eval(item):
    route, shape, spans, lay = item
    v, out = run_route(route, shape, spans, lay)
    return [(f"C11/{route}/{kind}/{placement_class(shape, spans)}" + (f"/layouts-{lay}" if lay else ""), det) for kind, det in v], out


SCC_LAYOUTS = [[1, 8, 15], [2, 9], [1, 5, 9, 13], [14, 15], [3, 4, 12], [15]]


def scc_programs():
    """italics-focused pop-on programs (reference decoder and comparison of C05): every row opened by an italic or
    plain preamble, mid-row italic on/off inside rows, rows adjacent and non-adjacent, one and two captions"""
    from mc.checks import c05

    row_contents = [
        [("C2", "A", "b")],
        [("C2", "A", "b"), ("MRP",), ("C2", "A", "b")],
        [("MRI",), ("C2", "A", "b")],
        [("C2", "A", "b"), ("MRI",), ("C1", "A")],
    ]
    for lay in SCC_LAYOUTS:
        for pacs in itertools.product((False, True), repeat=len(lay)):
            for ci in range(len(row_contents)):
                rows = []
                for k, (r, it) in enumerate(zip(lay, pacs)):
                    rows += [("PAC", r, 0, it, 0)] + row_contents[(ci + k) % len(row_contents)]
                yield [c05.wrap(rows)]
                yield [c05.wrap(c05.FIRST[6]), c05.wrap(rows)]


# ---- documents written by hand (independent serialiser): every spelling of a flat span, incl. spelled-out initial values ----
DFXP_SPELL = [
    ("", ()),
    ('tts:fontStyle="italic"', ("italics",)),
    ('tts:fontStyle="normal"', ()),
    ('tts:fontWeight="bold"', ("bold",)),
    ('tts:fontWeight="normal"', ()),
    ('tts:textDecoration="underline"', ("underline",)),
    ('tts:textDecoration="none"', ()),
    ('tts:fontStyle="italic" tts:fontWeight="normal"', ("italics",)),
    ('tts:fontStyle="normal" tts:fontWeight="bold"', ("bold",)),
]
DFXP_P = ["", ' tts:fontStyle="normal"', ' tts:fontWeight="normal" tts:textDecoration="none"', ' style="sN"']
SAMI_SPELL = [
    ("", "", ()),
    ('<span style="font-style:italic;">', "</span>", ("italics",)),
    ('<span style="font-style:normal;">', "</span>", ()),
    ('<span style="font-weight:bold;">', "</span>", ("bold",)),
    ('<span style="font-weight:normal;">', "</span>", ()),
    ('<span style="text-decoration:underline;">', "</span>", ("underline",)),
    ('<span style="text-decoration:none;">', "</span>", ()),
    ("<i>", "</i>", ("italics",)),
    ("<b>", "</b>", ("bold",)),
    ("<u>", "</u>", ("underline",)),
    ('<span style="font-style:italic;font-weight:normal;">', "</span>", ("italics",)),
    # the usual way to write a declaration list: a blank after every ";" and ":"
    ('<span style="font-weight: bold; font-style: italic">', "</span>", ("bold", "italics")),
    ('<span style="color: red; font-style: italic;">', "</span>", ("italics",)),
    ('<span style=" text-decoration : underline ; font-weight : bold ">', "</span>", ("underline", "bold")),
]
WORDS = ["ab", "cd", "ef"]


def doc_cases(fmt, tier):
    """-> (document, [(char, flags)], class)"""
    from mc.ref import docs

    if fmt == "dfxp":
        head = '<styling><style xml:id="sI" tts:fontStyle="italic"/><style xml:id="sN" tts:fontStyle="normal" tts:fontWeight="normal"/></styling>'
        for pi, pattr in enumerate(DFXP_P):
            for combo in itertools.product(range(len(DFXP_SPELL)), repeat=3):
                if pi and tier == "quick" and len(set(combo)) == 3 and sum(combo) % 3:
                    continue
                inner, exp = [], []
                for w, k in zip(WORDS, combo):
                    attr, fl = DFXP_SPELL[k]
                    inner.append(f"<span {attr}>{w}</span>" if attr else w)
                    exp += [(ch, frozenset(fl)) for ch in w]
                doc = docs.dfxp_doc([("en", [('begin="1s" end="2s"' + pattr, " ".join(inner))])], head=head)
                initial = any(("normal" in DFXP_SPELL[k][0] or "none" in DFXP_SPELL[k][0]) for k in combo) or bool(pi)
                yield doc, exp, "spelled-out-initial-value" if initial else "plain-spellings"
    else:
        for combo in itertools.product(range(len(SAMI_SPELL)), repeat=3):
            inner, exp = [], []
            for w, k in zip(WORDS, combo):
                o, c, fl = SAMI_SPELL[k]
                inner.append(o + w + c)
                exp += [(ch, frozenset(fl)) for ch in w]
            doc = docs.sami_doc([(1000, [("en-US", " ".join(inner))]), (2000, [("en-US", "&nbsp;")])], ["en-US"])
            initial = any(("normal" in SAMI_SPELL[k][0] or "none" in SAMI_SPELL[k][0]) for k in combo)
            yield doc, exp, "spelled-out-initial-value" if initial else "plain-spellings"


def run_doc(fmt, doc, exp):
    """read the document; then write what was read as DFXP / SAMI / WebVTT: the marked characters stay the same"""
    import pycaption

    v = []
    src_carried = {"italics"} if fmt == "dfxp" else {"italics", "bold", "underline"}
    try:
        cs = shared.obj(pycaption.DFXPReader if fmt == "dfxp" else pycaption.SAMIReader).read(doc)
    except Exception as e:  # noqa
        return [(f"raises:{type(e).__name__}@read", {"err": str(e)[:200], "doc": doc[-500:]})], "raises"

    def judge(cs_, carried, where, doc_):
        caps = cs_.get_captions(cs_.get_languages()[0])
        if len(caps) != 1:
            v.append((f"caption-count@{where}", {"got": len(caps)}))
            return
        got, balanced = caption_flags(caps[0])
        if not balanced:
            v.append((f"reader-style-nodes-unbalanced@{where}", {"nodes": repr(caps[0].nodes)[:400], "doc": doc_[-600:]}))
        want = [(ch, frozenset(f & carried)) for ch, f in exp]
        got_c = [(ch, frozenset(f & carried)) for ch, f in got]
        if got_c != want:
            kind = f"characters-differ@{where}" if [c for c, _ in got_c] != [c for c, _ in want] else f"flags-differ@{where}"
            v.append((kind, {"got": show(got_c), "want": show(want), "doc": doc_[-700:]}))

    judge(cs, src_carried, "read", doc)
    if v:
        return v, "differ"
    for hop in ("dfxp", "sami", "vtt"):
        try:
            if hop == "dfxp":
                out = shared.obj(pycaption.DFXPWriter).write(cs)
                parsers.parse_ttml(out)
                judge(shared.obj(pycaption.DFXPReader).read(out), {"italics"}, "read>dfxp", out)
            elif hop == "sami":
                out = shared.obj(pycaption.SAMIWriter).write(cs)
                if parsers.parse_sami(out)["markup_errors"]:
                    v.append(("sami-markup-unbalanced@read>sami", {"doc": out[-600:]}))
                judge(shared.obj(pycaption.SAMIReader).read(out), src_carried, "read>sami", out)
            else:
                out = shared.obj(pycaption.WebVTTWriter).write(cs)
                got, errors = vtt_flags(out)
                if errors:
                    v.append(("vtt-tags-unbalanced@read>vtt", {"err": errors[:3], "doc": out}))
                want = [(ch, frozenset(f & src_carried)) for ch, f in exp]
                got_c = [(ch, frozenset(f & src_carried)) for ch, f in got]
                if got_c != want:
                    v.append(("vtt-flags-differ@read>vtt", {"got": show(got_c), "want": show(want), "doc": out}))
        except parsers.ParseError as e:
            v.append((f"markup-unbalanced@read>{hop}", {"err": str(e)[:200]}))
        except Exception as e:  # noqa
            v.append((f"raises:{type(e).__name__}@read>{hop}", {"err": str(e)[:300]}))
    return v, "ok" if not v else "differ"


def shards(tier, seed):
    sh = [{"route": "scc", "shape": -1, "tier": tier, "part": 0, "nparts": 1}, {"route": "reuse", "shape": -1, "tier": tier, "part": 0, "nparts": 1}]
    for fmt in ("dfxp", "sami"):
        for p in range(4):
            sh.append({"route": "docs", "fmt": fmt, "shape": -1, "tier": tier, "part": p, "nparts": 4})
    for si, shape in enumerate(shapes()):
        for route in ROUTES:
            parts = 1 if len(atoms(shape)) <= 4 else (2 if tier == "quick" else 6)
            for p in range(parts):
                sh.append({"shape": si, "route": route, "tier": tier, "part": p, "nparts": parts})
    return sh


def run_shard(d):
    acc = Acc()
    if d["route"] == "reuse":
        shared.run(acc, reuse_items(), reuse_eval, sample=lambda it: {"reuse_run_step": list(it)})
        return acc.result()
    if d["route"] == "docs":
        for i, (doc, exp, klass) in enumerate(doc_cases(d["fmt"], d["tier"])):
            if i % d["nparts"] != d["part"]:
                continue
            v, out = run_doc(d["fmt"], doc, exp)
            acc.case(("docs", d["fmt"], doc), True, (out, show(exp)), {"route": "hand-written " + d["fmt"] + " document", "doc": doc[-400:]})
            for kind, det in v:
                acc.violation(f"C11/{d['fmt']}-document/{kind}/{klass}", {"route": "docs", "fmt": d["fmt"], "index": i, "tier": d["tier"]}, det)
        return acc.result()
    if d["route"] == "scc":
        from mc.checks import c05

        for prog in scc_programs():
            for doubled in (False, True):
                v, g, out = c05.compare(prog, doubled)
                if v is None:
                    acc.count("scc_programs_outside_domain")
                    continue
                acc.case(("scc", prog, doubled), True, out, {"route": "scc-reader", "program": prog, "doubled": doubled})
                for kind, det in v:
                    if kind in ("italics-unbalanced", "italic-flags", "text", "caption-count") or kind.startswith("raises"):
                        acc.violation(f"C11/scc-reader/{kind}", {"route": "scc", "prog": prog, "doubled": doubled}, det)
        return acc.result()
    shape = shapes()[d["shape"]]
    if d["route"] == "vtt":
        n = len(atoms(shape))
        for a in range(n + 1):
            for b in range(a + 1, n + 1):
                for extra in [None] + [(c, e, st) for c in range(b, n + 1) for e in range(c + 1, n + 1) for st in ("i", "u")]:
                    spans = [(a, b, "Cls")] + ([extra] if extra else [])
                    v, out = run_route("vtt", shape, spans, None)
                    acc.case((shape, spans, "vtt", "class-ref"), True, out, {"lines": shape, "spans(start,end,style)": spans, "route": "vtt", "class_reference": "EmphasisStyle = italics + bold"})
                    for kind, det in v:
                        acc.violation(f"C11/vtt/{kind}/class-reference", {"shape": shape, "spans": spans, "route": "vtt", "lay": None}, det)
    for i, spans in enumerate(span_sets(shape, d["tier"])):
        if i % d["nparts"] != d["part"]:
            continue
        lays = [None]
        if len(spans) == 2 and spans[0][0] <= spans[0][1] and spans[1][0] < spans[1][1] and (spans[0][2], spans[1][2]) in (("i", "i"), ("i", "b"), ("ib", "u"), ("i", "ib"), ("u", "ibu")):
            lays = [None, "same", "diff"]  # the two spans carry layouts (each span within nodes of one layout)
        for lay in lays:
            v, out = run_route(d["route"], shape, spans, lay)
            acc.case((shape, spans, d["route"], lay), True, out, {"lines": shape, "spans(start,end,style)": spans, "route": d["route"], "span_layouts": lay})
            for kind, det in v:
                acc.violation(f"C11/{d['route']}/{kind}/{placement_class(shape, spans)}" + (f"/layouts-{lay}" if lay else ""), {"shape": shape, "spans": spans, "route": d["route"], "lay": lay}, det)
    return acc.result()


def replay(case):
    if case.get("reuse"):
        return shared.replay(reuse_items(), reuse_eval, case["index"])
    if case.get("route") == "docs":
        for i, (doc, exp, klass) in enumerate(doc_cases(case["fmt"], case["tier"])):
            if i == case["index"]:
                v, _ = run_doc(case["fmt"], doc, exp)
                return [{"sig": f"C11/{case['fmt']}-document/{kind}/{klass}", "detail": det} for kind, det in v]
        return []
    if case.get("route") == "scc":
        from mc.checks import c05

        prog = [[c05._t(e) for e in c] for c in case["prog"]]
        v, g, out = c05.compare(prog, case["doubled"])
        return [{"sig": f"C11/scc-reader/{kind}", "detail": det} for kind, det in (v or []) if kind in ("italics-unbalanced", "italic-flags", "text", "caption-count") or kind.startswith("raises")]
    shape = tuple(case["shape"])
    spans = [tuple(s) for s in case["spans"]]
    lay = case.get("lay")
    v, _ = run_route(case["route"], shape, spans, lay)
    klass = "class-reference" if any(st in CLASS_REF for _a, _b, st in spans) else placement_class(shape, spans)
    return [{"sig": f"C11/{case['route']}/{k}/{klass}" + (f"/layouts-{lay}" if lay else ""), "detail": det} for k, det in v]
