"""C07  DFXP output is well-formed XML and internally consistent.

E3 with deviation bounding: (a) API-built caption sets - a base set with every axis at its default, and all sets with
<= 2 axes deviating (text token, style values, class names, language codes, span styles, layouts at three levels,
number of languages, concurrent captions) x the three DFXP writers x writer options; (b) caption sets returned by the
real readers on a generated corpus (all six input formats). Oracle: strict XML parse (lxml + expat), root tt in the TTML
namespace, one div per written language, one timed p per caption (per run of concurrent captions for the legacy and
single-position writers), every style= / region= reference resolves to exactly one xml:id, ids unique, every region
defined is referenced.
"""
import itertools

from mc.acc import Acc
from mc.ref import parsers

ID = "C07"
LEVEL = "exploration"
RULE = (
    "API-built sets: base + all single deviations + all pairs of deviations over the axes (values listed in AXES) x writers "
    "{DFXPWriter, SinglePositioningDFXPWriter, LegacyDFXPWriter} x option sets; reader-built sets: corpus of generated documents "
    "of the six formats x writers. distinct = distinct (set description, writer, options); non-trivial = all (each has >= 1 caption)"
)
ASSUMPTIONS = [
    "a writer that raises a documented error (RelativizationError, ValueError for fitting un-relativised layouts) has not violated C07",
    "style spans in API-built sets are balanced",
    "attribute values are printable Unicode without control characters; class names / style ids contain no white space (style= is a list of references)",
    "well-formedness authority is expat (xml.etree); lxml's additional xml:id NCName constraint is not part of XML 1.0 well-formedness",
]
TRUSTED = ["lxml strict XML parser", "expat"]
MANIFEST = {
    "technique": "bounded-exhaustive enumeration of <=2-axis deviations from a base caption set x DFXP writers x options, plus all reader outputs on a generated corpus; oracle = strict XML parse and reference/definition consistency checks",
    "text": "Every set within the deviation bound is written by the real writers; the output is parsed strictly and the structural invariants (divs, timed paragraphs, resolvable unique ids, no unused region) are checked.",
    "note": "Pairwise (2-deviation) coverage of the axes, not the full product; axis value lists are finite.",
}

VALS = ["red", "a&b", "a<b", '"q"', "it's", "a b", "\u00e9", "a>b", "x&amp;y", '"Author\'s Hand", cursive']
TEXTS = ["Hello", "&", "<", "a -->", "&lt;", "<br/>", "]]>", "\u00e9"]
LAYOUTS = [
    None,
    (("10", "20"), None, None, None),
    (("10", "20"), ("30", "40"), ("1", "1", "1", "1"), ("center", "top")),
    (None, None, None, ("right", "center")),
    "px",
]
WRITERS = ["DFXPWriter", "SinglePositioningDFXPWriter", "LegacyDFXPWriter"]

# axis -> list of values; index 0 is the base value
AXES = {
    "text": TEXTS,
    "cap_style_key": [None, "color", "font-family", "text-align", "font-size", "class", "display-align"],
    "cap_style_val": VALS,
    # "nested-*": an outer styled span that contains a style node no DFXP writer can express (bold only / underline
    # only / empty) - balanced, properly nested
    "span_style": [None, "italics", "italics+color", "class-defined", "class-undefined", "color-only", "nested-bold", "nested-underline", "nested-empty", "text-align", "layout-on-text-only", "class-named-like-a-region"],
    "span_val": VALS,
    # "bottom" / "r0": the names the writers give to the default region and to the first region they create
    "set_style_id": [None] + VALS[1:7] + ["p", "default", "bottom", "r0"],
    "set_style_val": VALS,
    "lang": ["en-US"] + VALS[1:7],
    # "2x": two languages, the first of which also has two positioned captions of its own (layouts no other language uses)
    # "2e" / "e2": two languages, the second / first of which has no caption at all
    "nlangs": [1, 2, 3, "2x", "2e", "e2"],
    "lang_layout": LAYOUTS,
    "other_lang_layout": LAYOUTS[:4],
    "cap_layout": LAYOUTS,
    "span_layout": LAYOUTS,
    # True: captions 1 and 2 share their times (one run); "aba": captions 1 and 3 do, caption 2 lies between (three runs)
    # "near": captions 1 and 2 differ by less than a millisecond at both ends (not identical: separate runs)
    # "same-start" / "same-end": captions 1 and 2 share only one of their two times (separate runs)
    "concurrent": [False, True, "aba", "near", "same-start", "same-end"],
    # the first caption starts at time zero (its run, if any, too)
    "from_zero": [False, True],
}
OPTS = [
    {},
    {"relativize": False},
    {"fit_to_screen": False},
    {"video_width": 640, "video_height": 360},
    {"write_inline_positioning": True},
    {"force": "existing"},
    {"force": "missing"},
]


def bounds(tier):
    return {"max_deviations": 2 if tier == "quick" else 3, "axes": {k: len(v) for k, v in AXES.items()}, "option_sets": len(OPTS),
            "note": "thorough: all option sets on every <=2-deviation set, plus all 3-axis deviations over two values per axis (first two non-base values)"}


def mk_layout(spec):
    from pycaption.geometry import Layout, Point, Size, UnitEnum

    from mc.checks import c12

    if spec is None:
        return None
    if spec == "px":
        return Layout(origin=Point(Size(20, UnitEnum.PIXEL), Size(30, UnitEnum.PIXEL)))
    return c12.mk_layout(spec)


def build(cfg):
    from pycaption import Caption, CaptionList, CaptionNode, CaptionSet

    caps = {}
    own = cfg["nlangs"] == "2x"
    langs = [cfg["lang"]] + ["fr-FR", "de-DE"][: (2 if own or cfg["nlangs"] in ("2e", "e2") else cfg["nlangs"]) - 1]
    for li, lang in enumerate(langs):
        cl = CaptionList(layout_info=mk_layout(cfg["lang_layout"]) if li == 0 else mk_layout(cfg["other_lang_layout"]))
        # caption 1: text, optionally with a styled span
        nodes = [CaptionNode.create_text(cfg["text"])]
        sp = cfg["span_style"]
        if sp and sp.startswith("nested-"):
            outer = {"italics": True, "color": cfg["span_val"]}
            inner = {"nested-bold": {"bold": True}, "nested-underline": {"underline": True}, "nested-empty": {}}[sp]
            L = mk_layout(cfg["span_layout"])
            nodes += [CaptionNode.create_break(), CaptionNode.create_style(True, outer, layout_info=L), CaptionNode.create_text("sty", layout_info=L),
                      CaptionNode.create_style(True, inner, layout_info=L), CaptionNode.create_text("in", layout_info=L), CaptionNode.create_style(False, inner, layout_info=L),
                      CaptionNode.create_text("led", layout_info=L), CaptionNode.create_style(False, outer, layout_info=L)]
        elif sp == "layout-on-text-only":
            # the text inside an (unpositioned) italic span carries a layout that nothing else uses
            L = mk_layout(cfg["span_layout"]) or mk_layout(LAYOUTS[2])
            nodes += [CaptionNode.create_break(), CaptionNode.create_style(True, {"italics": True}), CaptionNode.create_text("styled", layout_info=L), CaptionNode.create_style(False, {"italics": True})]
        elif sp:
            content = {
                "italics": {"italics": True},
                "italics+color": {"italics": True, "color": cfg["span_val"]},
                "class-defined": {"class": cfg["span_val"]},
                "class-undefined": {"class": "nosuch" + cfg["span_val"]},
                # ... and an undefined class that is called like the writers' default region
                "class-named-like-a-region": {"class": "bottom", "italics": True},
                "color-only": {"color": cfg["span_val"], "font-family": cfg["span_val"]},
                # a style attribute that positioning writes too (tts:textAlign)
                "text-align": {"text-align": "center", "italics": True},
            }[sp]
            L = mk_layout(cfg["span_layout"])
            nodes += [CaptionNode.create_break(), CaptionNode.create_style(True, content, layout_info=L), CaptionNode.create_text("styled", layout_info=L), CaptionNode.create_style(False, content, layout_info=L)]
        style = {}
        if cfg["cap_style_key"]:
            style = {cfg["cap_style_key"]: cfg["cap_style_val"]}
        z = 1000000 if cfg.get("from_zero") else 0  # shift of the first span down to zero
        cl.append(Caption(1000000 - z, 2000000 - z, nodes, style=style, layout_info=mk_layout(cfg["cap_layout"])))
        t2 = {True: (1000000 - z, 2000000 - z), "near": (1000400 - z, 2000300 - z), "same-start": (1000000 - z, 2500000), "same-end": (1500000 - z, 2000000 - z)}.get(cfg["concurrent"], (3000000, 4000000))
        cl.append(Caption(t2[0], t2[1], [CaptionNode.create_text("second " + lang[:2])], layout_info=mk_layout(cfg["other_lang_layout"]) if li else (mk_layout(LAYOUTS[1]) if own else None)))
        t3 = (1000000 - z, 2000000 - z) if cfg["concurrent"] == "aba" else (5000000, 6000000)
        cl.append(Caption(t3[0], t3[1], [CaptionNode.create_text("third")], layout_info=mk_layout(LAYOUTS[3]) if own and not li else None))
        caps[lang] = cl
    if cfg["nlangs"] in ("2e", "e2"):
        caps["fr-FR"] = CaptionList()
        if cfg["nlangs"] == "e2":
            langs = ["fr-FR", cfg["lang"]]
            caps = {l: caps[l] for l in langs}
    cs = CaptionSet(caps)
    styles = {}
    if cfg["set_style_id"]:
        styles[cfg["set_style_id"]] = {"color": cfg["set_style_val"], "font-family": cfg["set_style_val"]}
    if cfg["span_style"] == "class-defined":
        styles[cfg["span_val"]] = {"color": "blue"}
    if cfg["cap_style_key"] == "class":
        styles[cfg["cap_style_val"]] = {"font-size": "10px"}
    if styles:
        cs.set_styles(styles)
    return cs, langs


def writer_for(name, opt):
    import pycaption
    from pycaption.dfxp import extras

    cls = getattr(pycaption, name, None) or getattr(extras, name)
    kw = {k: v for k, v in opt.items() if k != "force"}
    if name == "LegacyDFXPWriter":
        kw = {}
    elif "write_inline_positioning" in kw and name == "LegacyDFXPWriter":
        kw.pop("write_inline_positioning")
    return cls(**kw)


def check_doc(doc, expected_langs, expected_ps, klass):
    """expected_ps: per language, the acceptable numbers of p elements"""
    v = []
    try:
        t = parsers.parse_ttml(doc)
    except parsers.ParseError as e:
        return [(f"not-well-formed", {"err": str(e)[:300], "doc": doc[:1500]})]
    root = t["root"]
    if len(t["divs"]) != len(expected_langs):
        v.append(("div-count", {"got": len(t["divs"]), "want": len(expected_langs)}))
    else:
        for d, lang, nps in zip(t["divs"], expected_langs, expected_ps):
            if d["lang"] != lang:
                v.append(("div-language", {"got": d["lang"], "want": lang}))
            if len(d["ps"]) not in nps:
                v.append(("p-count", {"lang": lang, "got": len(d["ps"]), "want": sorted(nps)}))
            for p in d["ps"]:
                if p["el"].get("begin") is None or p["el"].get("end") is None:
                    v.append(("p-without-begin-or-end", {"attrs": dict(p["el"].attrib)}))
    ids = {}
    for el in root.iter():
        i = el.get("{%s}id" % parsers.XML_NS)
        if i is not None:
            ids.setdefault(i, []).append(el.tag.split("}")[-1])
    for i, kinds in ids.items():
        if len(kinds) > 1:
            # a style whose id is one of the names the writers use for regions ("bottom", "r<n>") is a finding of its own
            like_region = set(kinds) == {"style", "region"} and (i == "bottom" or (i[:1] == "r" and i[1:].isdigit()))
            v.append(("duplicate-xml-id" + (":style-named-like-a-region" if like_region else ""), {"id": i, "elements": kinds}))
    region_ids = {i for i, k in ids.items() if "region" in k}
    style_ids = {i for i, k in ids.items() if "style" in k}
    used_regions = set()
    for el in root.iter():
        tag = el.tag.split("}")[-1] if isinstance(el.tag, str) else ""
        if tag in ("region",):
            continue
        r = el.get("region")
        if r is not None:
            used_regions.add(r)
            if r not in region_ids:
                v.append(("dangling-region-reference", {"region": r, "on": tag}))
        s = el.get("style")
        if s is not None and tag != "style":
            for ref in s.split():
                if ref not in style_ids:
                    v.append(("dangling-style-reference", {"style": ref, "on": tag}))
    for r in region_ids - used_regions:
        v.append(("unreferenced-region", {"region": r}))
    return v


def minimal_class(cfg):
    dev = [k for k in AXES if cfg[k] != AXES[k][0]]
    out = []
    for k in dev:
        val = cfg[k]
        if isinstance(val, str) and any(ch in val for ch in "&<>\"'"):
            out.append(f"{k}:metachar")
        elif k.endswith("layout"):
            out.append(f"{k}:{'px' if val == 'px' else 'set'}")
        else:
            out.append(k)
    return "+".join(out) or "base"


def in_domain(cfg):
    """class names / style ids are single tokens (TTML style= is a list of id references)"""
    if cfg["set_style_id"] and " " in cfg["set_style_id"]:
        return False
    if cfg["cap_style_key"] == "class" and " " in cfg["cap_style_val"]:
        return False
    if cfg["span_style"] in ("class-defined", "class-undefined") and " " in cfg["span_val"]:
        return False
    return True


def _sig(wname, kind, klass):
    """violation signature; a style named like a region is one finding per writer, whatever else the set contains"""
    if kind.endswith(":style-named-like-a-region"):
        return f"C07/{wname}/{kind}"
    return f"C07/{wname}/{kind}/{klass}"


def expected_p_counts(cfg, wname, langs):
    nps = [{2} if (wname != "DFXPWriter" and cfg["concurrent"] is True) else {3} for _ in langs]
    if cfg["nlangs"] in ("2e", "e2"):
        nps = [{0} if l == "fr-FR" else n for l, n in zip(langs, nps)]
    return nps


def evaluate_raw(cfg, wname, opt):
    from pycaption.exceptions import RelativizationError

    if not in_domain(cfg):
        return [], "out-of-domain"

    cs, langs = build(cfg)
    force = opt.get("force")
    kw = {}
    if force == "existing":
        kw["force"] = langs[-1]
    elif force == "missing":
        kw["force"] = "xx-XX"
    try:
        doc = writer_for(wname, opt).write(cs, **kw)
    except RelativizationError:
        return [], "RelativizationError"
    except ValueError as e:
        if "relativized" in str(e) or "Units must be" in str(e):
            return [], "ValueError(documented)"
        return [(f"C07/{wname}/raises:ValueError/{minimal_class(cfg)}", {"err": str(e)[:200]})], "raises"
    except Exception as e:  # noqa
        return [(f"C07/{wname}/raises:{type(e).__name__}/{minimal_class(cfg)}", {"err": str(e)[:200]})], "raises"
    if force == "existing":
        exp_langs = [langs[-1]]
    elif force == "missing" and wname == "LegacyDFXPWriter":
        exp_langs = [langs[-1]]
    else:
        exp_langs = langs
    nps = expected_p_counts(cfg, wname, exp_langs)
    out = check_doc(doc, exp_langs, nps, None)
    return [(_sig(wname, kind, minimal_class(cfg)), dict(det, cfg={k: cfg[k] for k in cfg if cfg[k] != AXES[k][0]})) for kind, det in out], "ok" if not out else "bad"


def evaluate(cfg, wname, opt):
    """evaluate + reduce the deviation set while the same kind of violation persists (stable signatures)"""
    v, out = evaluate_raw(cfg, wname, opt)
    if not v:
        return v, out
    kinds = {sig.split("/")[2] for sig, _ in v}
    cur = dict(cfg)
    changed = True
    while changed:
        changed = False
        for k in AXES:
            if cur[k] != AXES[k][0]:
                c = dict(cur)
                c[k] = AXES[k][0]
                v2, _ = evaluate_raw(c, wname, opt)
                if v2 and {sig.split("/")[2] for sig, _ in v2} == kinds:
                    cur = c
                    changed = True
                    break
    opt2 = opt
    if opt:
        v3, _ = evaluate_raw(cur, wname, {})
        if v3 and {sig.split("/")[2] for sig, _ in v3} == kinds:
            opt2 = {}
    v4, _ = evaluate_raw(cur, wname, opt2)
    return [(sig + ("/opt:" + "+".join(sorted(opt2)) if opt2 and not sig.endswith(":style-named-like-a-region") else ""), det) for sig, det in v4], out


def base_cfg():
    return {k: v[0] for k, v in AXES.items()}


def deviations(maxdev):
    base = base_cfg()
    yield dict(base)
    keys = list(AXES)
    for k in keys:
        for val in AXES[k][1:]:
            c = dict(base)
            c[k] = val
            yield c
    if maxdev >= 2:
        for k1, k2 in itertools.combinations(keys, 2):
            for v1 in AXES[k1][1:]:
                for v2 in AXES[k2][1:]:
                    c = dict(base)
                    c[k1] = v1
                    c[k2] = v2
                    yield c
    if maxdev >= 3:
        for k1, k2, k3 in itertools.combinations(keys, 3):
            for v1 in AXES[k1][1:3]:
                for v2 in AXES[k2][1:3]:
                    for v3 in AXES[k3][1:3]:
                        c = dict(base)
                        c[k1], c[k2], c[k3] = v1, v2, v3
                        yield c


def corpus():
    """documents of the six input formats (generated, not taken from the repository)"""
    from mc.checks import c04, c05, c16
    from mc.ref import cea608 as C

    out = []
    for fmt in ("srt", "webvtt", "microdvd", "dfxp", "sami"):
        P = c04.PIECES[fmt]
        for i in range(len(P)):
            for j in (0, 2, 5):
                caps = [[[i, j % len(P)]], [[(i + 1) % len(P)], [j % len(P)]]]
                enc = [[" ".join(P[k][1] for k in line) for line in cap] for cap in caps]
                out.append((fmt, c04.make_doc(fmt, enc, c04.BREAKS[fmt][0])))
    for first in c05.FIRST:
        for doubled in (False, True):
            out.append(("scc", c05.program_doc([c05.wrap(first), c05.wrap(c05.FIRST[3])], doubled)))
    for seg in c16.seg_menu():
        out.append(("scc", c16.build([seg], 1, ":", 30)[0]))
    # DFXP documents with regions and styles
    from mc.ref import docs

    head = '<styling><style xml:id="s1" tts:color="red" tts:fontStyle="italic"/></styling><layout><region xml:id="r1" tts:origin="10% 20%" tts:extent="30% 40%"/><region xml:id="r2" tts:textAlign="center" tts:displayAlign="before"/></layout>'
    out.append(("dfxp", docs.dfxp_doc([("en", [('begin="1s" end="2s" region="r1" style="s1"', 'a<br/><span region="r2" tts:fontStyle="italic">b</span>'), ('begin="3s" dur="1s" region="r2"', "c &amp; d")]), ("fr", [('begin="1s" end="2s"', "e")])], head=head)))
    return out


def shards(tier, seed):
    sh = []
    n = 24 if tier == "quick" else 64
    for w in WRITERS:
        for p in range(n):
            sh.append({"k": "api", "w": w, "part": p, "nparts": n, "maxdev": bounds(tier)["max_deviations"]})
    sh.append({"k": "readers"})
    for w in WRITERS:
        sh.append({"k": "reuse", "w": w})
    return sh


def run_shard(d):
    acc = Acc()
    if d["k"] == "api":
        w = d["w"]
        thorough = d.get("maxdev", 2) >= 3
        for i, cfg in enumerate(deviations(d.get("maxdev", 2))):
            if i % d["nparts"] != d["part"]:
                continue
            ndev = sum(1 for k in AXES if cfg[k] != AXES[k][0])
            for oi, opt in enumerate(OPTS):
                # an option that acts on one kind of axis is always combined with deviations of that axis
                related = ("write_inline_positioning" in opt and any(cfg[k] != AXES[k][0] for k in ("lang_layout", "cap_layout", "span_layout", "other_lang_layout"))) or ("force" in opt and cfg["nlangs"] != 1)
                if oi and ndev == 2 and not thorough and not related and (i // d["nparts"] + oi) % 4:
                    continue  # quick: the other option sets on a quarter of the two-deviation sets (options x 2 deviations would be 3-wise)
                if oi and ndev == 3 and (i // d["nparts"] + oi) % 7:
                    continue
                v, out = evaluate(cfg, w, opt)
                acc.case((w, cfg, opt), True, (w, out), {"writer": w, "options": opt, "deviations_from_base": {k: cfg[k] for k in cfg if cfg[k] != AXES[k][0]}})
                for sig, det in v:
                    acc.violation(sig, {"k": "api", "cfg": cfg, "w": w, "opt": opt}, det)
    elif d["k"] == "reuse":
        # one writer object writes a sequence of different sets: every output must still be consistent
        w = d["w"]
        singles = [c for c in deviations(1) if in_domain(c)]
        for order in (singles, list(reversed(singles)), singles[::2] + singles[1::2]):
            writer = writer_for(w, {})
            for step, cfg in enumerate(order):
                cs, langs = build(cfg)
                try:
                    doc = writer.write(cs)
                except Exception:  # noqa
                    continue
                nps = expected_p_counts(cfg, w, langs)
                res = check_doc(doc, langs, nps, None)
                prev = minimal_class(order[step - 1]) if step else "-"
                acc.case(("reuse", w, step, cfg), True, (w, "ok" if not res else "bad"), {"writer_object_reused": w, "step": step, "set": minimal_class(cfg), "previous_set": prev})
                if res:
                    # find a single earlier set that, written first with a new writer object, reproduces the failure
                    kinds = {k_ for k_, _ in res}
                    hist = list(order[: step + 1])
                    for x in order[:step]:
                        r2 = replay({"k": "reuse", "w": w, "order": [x, cfg]})
                        if {e["sig"].split("/")[2] for e in r2} == kinds:
                            hist = [x, cfg]
                            break
                    prev = minimal_class(hist[-2]) if len(hist) == 2 else "longer-history"
                    for kind, det in res:
                        acc.violation(_sig(w, kind, f"writer-object-reused/after:{prev}"), {"k": "reuse", "w": w, "order": hist}, dict(det, doc=doc[:900]))
                    writer = writer_for(w, {})
    else:
        import pycaption

        readers = {"srt": pycaption.SRTReader, "webvtt": pycaption.WebVTTReader, "microdvd": pycaption.MicroDVDReader, "dfxp": pycaption.DFXPReader, "sami": pycaption.SAMIReader, "scc": pycaption.SCCReader}
        for ci, (fmt, doc) in enumerate(corpus()):
            try:
                cs = readers[fmt]().read(doc)
            except Exception:  # noqa
                acc.count("corpus_documents_rejected_by_reader")
                continue
            langs = cs.get_languages()
            for w in WRITERS:
                for opt in ({}, {"fit_to_screen": False}, {"write_inline_positioning": True}):
                    try:
                        out = writer_for(w, opt).write(cs)
                    except Exception as e:  # noqa
                        acc.violation(f"C07/{w}/raises:{type(e).__name__}/reader-set:{fmt}", {"k": "corpus", "i": ci, "w": w, "opt": opt}, {"err": str(e)[:200]})
                        continue
                    import copy

                    ncaps = [len(cs.get_captions(l)) for l in langs]
                    merged = copy.deepcopy(cs)
                    from pycaption.base import merge_concurrent_captions

                    merged = merge_concurrent_captions(merged)
                    nm = [len(merged.get_captions(l)) for l in langs]
                    nps = [{a} if w == "DFXPWriter" else {b} for a, b in zip(ncaps, nm)]
                    res = check_doc(out, langs, nps, None)
                    acc.case(("corpus", ci, w, opt), True, (w, "ok" if not res else "bad"), {"reader_format": fmt, "writer": w, "doc_head": doc[:120]})
                    for kind, det in res:
                        acc.violation(f"C07/{w}/{kind}/reader-set:{fmt}", {"k": "corpus", "i": ci, "w": w, "opt": opt}, det)
    return acc.result()


def _fix_cfg(cfg):
    cfg = dict(cfg)
    for k in ("lang_layout", "cap_layout", "span_layout", "other_lang_layout"):
        if isinstance(cfg.get(k), list):
            cfg[k] = tuple(tuple(x) if isinstance(x, list) else x for x in cfg[k])
    cfg.setdefault("other_lang_layout", None)
    cfg.setdefault("from_zero", False)
    return cfg


def replay(case):
    if case["k"] == "reuse":
        w = case["w"]
        writer = writer_for(w, {})
        out = []
        order = [_fix_cfg(c) for c in case["order"]]
        for step, cfg in enumerate(order):
            cs, langs = build(cfg)
            try:
                doc = writer.write(cs)
            except Exception:  # noqa
                continue
            nps = expected_p_counts(cfg, w, langs)
            if step == len(order) - 1:
                prev = (minimal_class(order[step - 1]) if len(order) == 2 else "longer-history") if step else "-"
                out = [{"sig": _sig(w, kind, f"writer-object-reused/after:{prev}"), "detail": det} for kind, det in check_doc(doc, langs, nps, None)]
        return out
    if case["k"] == "api":
        cfg = _fix_cfg(case["cfg"])
        v, _ = evaluate(cfg, case["w"], case["opt"])
        return [{"sig": s, "detail": d} for s, d in v]
    import pycaption

    fmt, doc = corpus()[case["i"]]
    readers = {"srt": pycaption.SRTReader, "webvtt": pycaption.WebVTTReader, "microdvd": pycaption.MicroDVDReader, "dfxp": pycaption.DFXPReader, "sami": pycaption.SAMIReader, "scc": pycaption.SCCReader}
    cs = readers[fmt]().read(doc)
    w = case["w"]
    try:
        out = writer_for(w, case["opt"]).write(cs)
    except Exception as e:  # noqa
        return [{"sig": f"C07/{w}/raises:{type(e).__name__}/reader-set:{fmt}", "detail": str(e)[:200]}]
    import copy

    from pycaption.base import merge_concurrent_captions

    langs = cs.get_languages()
    merged = merge_concurrent_captions(copy.deepcopy(cs))
    nps = [{len(cs.get_captions(l))} if w == "DFXPWriter" else {len(merged.get_captions(l))} for l in langs]
    return [{"sig": f"C07/{w}/{kind}/reader-set:{fmt}", "detail": det} for kind, det in check_doc(out, langs, nps, None)]
