"""C03  Written text survives a conformant parser: escaping and cue structure.

E3: captions over a token alphabet (metacharacters, arrows, entity-looking and markup-looking strings, format
markers, non-ASCII) are written by each of the seven text writers; the document is parsed by the independent
parser of the format and, for every cue, the list of non-empty, whitespace-normalised lines must equal the
caption's. A sentinel second caption makes lost / merged / split cues observable.
"""
import itertools

from mc import shared
from mc.acc import Acc
from mc.ref import parsers

ID = "C03"
LEVEL = "exploration"
RULE = (
    "single-line captions: every token sequence of length <= N over TOKENS joined with and without a space; multi-line "
    "captions: 1..L lines over a 6-token structural sub-alphabet x every subset of the L+1 inter-line positions carrying an "
    "0..2 extra empty lines (as extra BREAKs or as whitespace-only text lines); each followed by a sentinel caption; x 7 writers. "
    "distinct = distinct (writer, caption); non-trivial = caption has a visible character"
)
ASSUMPTIONS = [
    "one TEXT node per line (how writers join several text nodes of one line differs by design)",
    "control characters are excluded; '|' is excluded for MicroDVD",
    "comparison is modulo per-line trim and whitespace-run collapse; NBSP counts as whitespace; empty lines are dropped on both sides",
]
TRUSTED = ["lxml strict XML parser + expat", "html.parser", "mc.ref.parsers SRT/WebVTT/MicroDVD grammars"]
MANIFEST = {
    "technique": "bounded-exhaustive enumeration of token-sequence captions x writers; oracle = independent conformant parser per output format",
    "text": "Every caption within the token/length/line bounds is written by the real writers and re-read by parsers that share no code with pycaption; cue count and per-cue line lists must be preserved.",
    "note": "Alphabet and bounds are finite; text outside the alphabet is not covered. The parsers are the trusted base.",
}

# (token, category)
TOKENS = [
    ("word", "plain"),
    ("123", "digits"),
    ("&", "amp"),
    ("<", "lt"),
    (">", "gt"),
    ('"', "quote"),
    ("'", "apos"),
    ("-->", "arrow"),
    ("&amp;", "entity-like"),
    ("&lt;", "entity-like"),
    ("&#65;", "entity-like"),
    ("&#x41;", "entity-like"),
    ("&nbsp;", "entity-like"),
    ("<i>", "markup-like"),
    ("</i>", "markup-like"),
    ("<br/>", "markup-like"),
    ("<p>", "markup-like"),
    ("]]>", "cdata-end"),
    ("<!--", "comment-open"),
    ("{1}{2}", "brace"),
    ("|", "pipe"),
    ("00:00:05,000 --> 00:00:06,000", "timing-like"),
    ("WEBVTT", "header-like"),
    ("NOTE", "header-like"),
    ("\u00e9", "nonascii"),
    ("x\u00a0y", "nbsp"),
    ("\U0001F600", "astral"),
    ("a\u200fb", "rtl-mark"),
]
STRUCT = ["word", "123", "00:00:05,000 --> 00:00:06,000", "-->", "&", "<"]
WRITERS = ["SRTWriter", "WebVTTWriter", "MicroDVDWriter", "DFXPWriter", "SinglePositioningDFXPWriter", "LegacyDFXPWriter", "SAMIWriter"]
CAT = dict(TOKENS)


def bounds(tier):
    return {"tokens": len(TOKENS), "max_tokens_per_line": 2 if tier == "quick" else 3, "max_lines": 3 if tier == "quick" else 4}


def build_set(items):
    """items: list of ('t', text) / ('b',) nodes for the first caption"""
    from pycaption import Caption, CaptionList, CaptionNode, CaptionSet

    from pycaption.geometry import Layout, Padding, Point, Size, UnitEnum

    nodes = []
    if items and items[0][0] == "P":
        # a positioned caption (region with different paddings on every side) whose every node carries that same layout,
        # the way the DFXP reader builds them
        pct = lambda v: Size(v, UnitEnum.PERCENT)  # noqa
        mk = lambda: Layout(origin=Point(pct(10), pct(70)), extent=None, padding=Padding(before=pct(1), after=pct(2), start=pct(3), end=pct(6)))  # noqa
        shared_layout = mk()
        for n, it in enumerate(items[1:]):
            lay = shared_layout if items[0][1] == "same-object" else mk()
            nodes.append(CaptionNode.create_text(it[1], layout_info=lay) if it[0] == "t" else CaptionNode.create_break(layout_info=lay))
        cl = CaptionList()
        cl.append(Caption(1000000, 2000000, nodes, layout_info=shared_layout))
        cl.append(Caption(5000000, 6000000, [CaptionNode.create_text("Sentinel")]))
        return CaptionSet({"en-US": cl})
    positioned = any(it[0] == "tl" for it in items)
    la = Layout(origin=Point(Size(10, UnitEnum.PERCENT), Size(10, UnitEnum.PERCENT))) if positioned else None
    lb = Layout(origin=Point(Size(20, UnitEnum.PERCENT), Size(70, UnitEnum.PERCENT))) if positioned else None
    for it in items:
        if it[0] == "t":
            nodes.append(CaptionNode.create_text(it[1]))
        elif it[0] == "tl":
            # an unstyled line with a layout of its own inside a positioned caption
            nodes.append(CaptionNode.create_text(it[1], layout_info=lb))
        elif it[0] == "s":
            # a style node that no writer can express as an inline tag (class reference only)
            nodes.append(CaptionNode.create_style(it[1], {"class": "c1"}))
        else:
            nodes.append(CaptionNode.create_break())
    cl = CaptionList()
    cl.append(Caption(1000000, 2000000, nodes, layout_info=la))
    cl.append(Caption(5000000, 6000000, [CaptionNode.create_text("Sentinel")]))
    return CaptionSet({"en-US": cl})


def items_from_lines(lines, empties=(), kind="break"):
    """lines: list of str; empties: tuple of len(lines)+1 counts (0..2) of extra empty lines at each position
    (position i = before line i; len(lines) = after the last line)"""
    items = []
    opened = [0]

    def extra(n):
        for _ in range(n):
            if kind == "space-text":
                items.append(("t", " "))
            elif kind == "style-pair":
                items.extend([("s", True), ("s", False)])  # the "empty" line holds an opened and closed class-only span
            elif kind == "style-open":
                items.append(("s", True))  # ... or only its opening node (closed at the end of the caption)
                opened[0] += 1
            items.append(("b",))

    for i, ln in enumerate(lines):
        extra(empties[i] if i < len(empties) else 0)
        items.append(("t", ln))
        if i + 1 < len(lines):
            items.append(("b",))
    n_after = empties[len(lines)] if len(lines) < len(empties) else 0
    for _ in range(n_after):
        items.append(("b",))
        if kind == "space-text":
            items.append(("t", " "))
        elif kind == "style-pair":
            items += [("s", True), ("s", False)]
    items += [("s", False)] * opened[0]
    return items


def expected_lines(items):
    lines, cur = [], []
    for it in items:
        if it[0] in ("t", "tl"):
            cur.append(it[1])
        elif it[0] == "b":
            lines.append("".join(cur))
            cur = []
    lines.append("".join(cur))
    return [parsers.norm_line(l) for l in lines if parsers.norm_line(l) != ""]


def writer_obj(name):
    import pycaption
    from pycaption.dfxp import extras

    return shared.obj(getattr(pycaption, name, None) or getattr(extras, name))


def parse_output(wname, doc):
    """-> list of cues, each a list of normalised non-empty lines"""
    if wname == "SRTWriter":
        cues = [c["lines"] for c in parsers.parse_srt(doc)]
    elif wname == "WebVTTWriter":
        cues = [c["lines"] for c in parsers.parse_vtt(doc)]
    elif wname == "MicroDVDWriter":
        cues = [c["lines"] for c in parsers.parse_microdvd(doc)]
    elif wname == "SAMIWriter":
        s = parsers.parse_sami(doc)
        cues = []
        for sy in s["syncs"]:
            for para in sy["ps"]:
                if not parsers.sami_is_blank(para):
                    cues.append(para["lines"])
    else:
        t = parsers.parse_ttml(doc)
        cues = [p["lines"] for d in t["divs"] for p in d["ps"]]
    return [[parsers.norm_line(l) for l in c if parsers.norm_line(l) != ""] for c in cues]


def features(items):
    f = set()
    prev_break = True
    for it in items:
        if it[0] == "P":
            f.add("every-node-carries-the-caption-layout")
            continue
        if it[0] == "s":
            f.add("class-only-style-node")
            continue
        if it[0] == "tl":
            f.add("line-with-its-own-layout")
        if it[0] == "b":
            if prev_break:
                f.add("empty-line")
            prev_break = True
        else:
            if it[1].strip() == "":
                f.add("whitespace-only-line")
            else:
                prev_break = False
                for tok, cat in TOKENS:
                    if cat not in ("plain", "digits") and tok in it[1]:
                        f.add(cat)
    if items and items[-1][0] == "b":
        f.add("empty-line")
    return "+".join(sorted(f)) or "plain"


def evaluate_raw(wname, items):
    """-> (kind or None, detail)"""
    want = [expected_lines(items), ["Sentinel"]]
    try:
        doc = writer_obj(wname).write(build_set(items))
    except Exception as e:  # noqa
        return f"raises:{type(e).__name__}", {"err": str(e)[:200]}
    try:
        got = parse_output(wname, doc)
    except parsers.ParseError as e:
        return "output-unparseable", {"err": str(e)[:300], "doc": doc[-600:]}
    if got != want:
        kind = "cue-count" if len(got) != len(want) else "lines-differ"
        return kind, {"got": got, "want": want, "doc": doc[-600:]}
    return None, None


def minimise(wname, items, kind):
    """greedy delta-debugging: simplify the caption while the same kind of violation persists, so that the
    signature names only the features that matter"""
    items = list(items)
    changed = True
    while changed:
        changed = False
        # drop nodes
        for i in range(len(items)):
            if items[i][0] in ("s", "P"):
                continue  # style nodes stay (dropping one of a pair would leave the balanced domain)
            cand = items[:i] + items[i + 1 :]
            if not any(it[0] in ("t", "tl") and visible(it[1]) for it in cand):
                continue
            if evaluate_raw(wname, cand)[0] == kind:
                items = cand
                changed = True
                break
        if changed:
            continue
        # simplify text
        for i, it in enumerate(items):
            if it[0] in ("t", "tl") and it[1] not in ("word", " "):
                for repl in ["word"] + [t for t, _ in TOKENS if t in it[1] and t != it[1]]:
                    cand = items[:i] + [(it[0], repl)] + items[i + 1 :]
                    if evaluate_raw(wname, cand)[0] == kind:
                        items = cand
                        changed = True
                        break
                if changed:
                    break
    return items


def evaluate(wname, items, do_min=True):
    kind, det = evaluate_raw(wname, items)
    if kind is None:
        return [], "ok"
    small = minimise(wname, items, kind) if do_min else items
    det = dict(det or {}, minimised_nodes=small)
    return [(f"C03/{wname}/{kind}/{features(small)}", det)], kind


def line_set(n):
    toks = [t for t, _ in TOKENS]
    out = list(toks)
    if n >= 2:
        for a, b in itertools.product(toks, repeat=2):
            out.append(a + " " + b)
            out.append(a + b)
    if n >= 3:
        for a, b, c in itertools.product(toks, repeat=3):
            out.append(a + " " + b + " " + c)
            out.append(a + b + c)
            out.append(a + " " + b + c)
            out.append(a + b + " " + c)
    return out


def visible(s):
    return parsers.norm_line(s) != ""


# ---- captions that share their times (runs of 2 and 3): SRT and the legacy / single-position DFXP writers merge them into
# one cue whose lines are the captions' lines in order; the other writers keep one cue per caption
MERGING = ("SRTWriter", "SinglePositioningDFXPWriter", "LegacyDFXPWriter")
TAILS = ["plain", "closing-style", "closing-class-style", "break"]
SECOND = ["same-times/last", "same-times/first", "later/last", "later/first"]


def _eval_concurrent_two(wname, cl, lines, klass, second):
    from pycaption import Caption, CaptionList, CaptionNode, CaptionSet

    fr = CaptionList()
    t0 = {"same-times": 1000000, "later": 3000000}[second.split("/")[0]]
    fr.append(Caption(t0, t0 + 1000000, [CaptionNode.create_text("Un")]))
    fr.append(Caption(t0, t0 + 1000000, [CaptionNode.create_text("Deux")]))
    fr.append(Caption(8000000, 9000000, [CaptionNode.create_text("Fin")]))
    order = ["fr-FR", "en-US"] if second.endswith("/first") else ["en-US", "fr-FR"]
    cs = CaptionSet({l: {"en-US": cl, "fr-FR": fr}[l] for l in order})
    klass += "/second-language-" + second
    try:
        doc = writer_obj(wname).write(cs)
        t = parsers.parse_ttml(doc)
    except parsers.ParseError as e:
        return [(f"C03/{wname}/output-unparseable/{klass}", {"err": str(e)[:300]})], "unparseable"
    except Exception as e:  # noqa
        return [(f"C03/{wname}/raises:{type(e).__name__}/{klass}", {"err": str(e)[:200]})], "raises"
    got = {}
    for d in t["divs"]:
        got.setdefault(d["lang"], []).extend([[parsers.norm_line(l) for l in p["lines"] if parsers.norm_line(l) != ""] for p in d["ps"]])
    merging = wname in MERGING
    want = {"en-US": [lines, ["Sentinel"]] if merging else [[l] for l in lines] + [["Sentinel"]], "fr-FR": [["Un", "Deux"], ["Fin"]] if merging else [["Un"], ["Deux"], ["Fin"]]}
    if got != want:
        bad = sorted(l for l in set(got) | set(want) if got.get(l) != want.get(l))
        kind = "cue-count" if any(len(got.get(l, [])) != len(want.get(l, [])) for l in bad) else "lines-differ"
        return [(f"C03/{wname}/{kind}/{klass}", {"got": got, "want": want, "doc": doc[-900:]})], kind
    return [], "ok"


def eval_concurrent(wname, texts, tail, second=None):
    """texts: the single lines of 2-3 captions with identical times; tail: how every caption but the last one ends"""
    from pycaption import Caption, CaptionList, CaptionNode, CaptionSet

    cl = CaptionList()
    for i, t in enumerate(texts):
        last = i == len(texts) - 1
        if tail == "closing-style" and not last:
            nodes = [CaptionNode.create_style(True, {"italics": True}), CaptionNode.create_text(t), CaptionNode.create_style(False, {"italics": True})]
        elif tail == "closing-class-style" and not last:
            nodes = [CaptionNode.create_style(True, {"class": "c1"}), CaptionNode.create_text(t), CaptionNode.create_style(False, {"class": "c1"})]
        elif tail == "break" and not last:
            nodes = [CaptionNode.create_text(t), CaptionNode.create_break()]
        else:
            nodes = [CaptionNode.create_text(t)]
        cl.append(Caption(1000000, 2000000, nodes))
    cl.append(Caption(5000000, 6000000, [CaptionNode.create_text("Sentinel")]))
    lines = [parsers.norm_line(t) for t in texts]
    klass = f"concurrent-run-of-{len(texts)}/{tail}"
    if second:
        # a second language with cues of its own (a concurrent pair at other times, then a single cue): every language
        # keeps exactly its own cues
        return _eval_concurrent_two(wname, cl, lines, klass, second)
    try:
        doc = writer_obj(wname).write(CaptionSet({"en-US": cl}))
        got = parse_output(wname, doc)
    except parsers.ParseError as e:
        return [(f"C03/{wname}/output-unparseable/{klass}", {"err": str(e)[:300]})], "unparseable"
    except Exception as e:  # noqa
        return [(f"C03/{wname}/raises:{type(e).__name__}/{klass}", {"err": str(e)[:200]})], "raises"
    merged = [lines, ["Sentinel"]]
    separate = [[l] for l in lines] + [["Sentinel"]]
    ok = got == merged if wname in MERGING else got == separate
    if wname == "SAMIWriter" and not ok:
        # SAMI files the paragraphs of one start time in one SYNC block: one paragraph per caption, in order
        ok = got == separate
    if not ok:
        kind = "cue-count" if len(got) not in (len(merged), len(separate)) else "lines-differ"
        return [(f"C03/{wname}/{kind}/{klass}", {"got": got, "want": merged if wname in MERGING else separate, "doc": doc[-700:]})], kind
    return [], "ok"


def eval_split(wname, line, k, styled):
    """one line given as two adjacent text nodes (split after k characters), optionally with the second one inside a span
    that only refers to a class (nothing most writers can render): the cue structure survives and the characters come out
    in order (blanks are not compared: some writers join adjacent nodes with one)"""
    a, b = line[:k], line[k:]
    items = [("t", a)] + ([("s", True), ("t", b), ("s", False)] if styled else [("t", b)])
    klass = "line-split-into-two-text-nodes" + ("/second-in-class-only-span" if styled else "")
    squeeze = lambda x: "".join(x.split())  # noqa: E731
    try:
        doc = writer_obj(wname).write(build_set(items))
        got = parse_output(wname, doc)
    except parsers.ParseError as e:
        return [(f"C03/{wname}/output-unparseable/{klass}", {"err": str(e)[:300]})], "unparseable"
    except Exception as e:  # noqa
        return [(f"C03/{wname}/raises:{type(e).__name__}/{klass}", {"err": str(e)[:200]})], "raises"
    got_s = [squeeze("".join(c)) for c in got]
    want = [squeeze(parsers.norm_line(a) + parsers.norm_line(b)), "Sentinel"]
    if got_s != want:
        kind = "cue-count" if len(got_s) != len(want) else "lines-differ"
        feats = features([("t", line)])
        return [(f"C03/{wname}/{kind}/{klass}/{feats}", {"got": got, "want": want, "nodes": items, "doc": doc[-500:]})], kind
    return [], "ok"


def reuse_items():
    items = []
    ls = line_set(2)
    for i, ln in enumerate(ls[::23]):
        for w in WRITERS:
            if w == "MicroDVDWriter" and "|" in ln:
                continue
            items.append((w, [("t", ln)] if i % 3 else items_from_lines([ln, "word"], (i % 3, (i // 3) % 3, 0), "break")))
    return items


def reuse_eval(item):
    return evaluate(item[0], item[1], do_min=False)


def shards(tier, seed):
    b = bounds(tier)
    sh = [{"k": "reuse", "w": None}]
    sh.append({"k": "concurrent", "w": None})
    sh.append({"k": "padded", "w": None})
    for w in WRITERS:
        sh.append({"k": "split", "w": w})
    for w in WRITERS:
        nparts = (2 if tier == "quick" else 24) if w not in ("SRTWriter", "WebVTTWriter", "MicroDVDWriter") else (1 if tier == "quick" else 4)
        for part in range(nparts):
            sh.append({"k": "single", "w": w, "n": b["max_tokens_per_line"], "part": part, "nparts": nparts})
        for nl in range(1, b["max_lines"] + 1):
            parts = 1 if nl < 2 else (2 if nl == 2 else (12 if nl == 3 else 48))
            for part in range(parts):
                sh.append({"k": "multi", "w": w, "nl": nl, "part": part, "nparts": parts})
    return sh


def run_shard(d):
    acc = Acc()
    if d["k"] == "reuse":
        shared.run(acc, reuse_items(), reuse_eval, sample=lambda it: {"reuse_run_step": [it[0], it[1]]})
        return acc.result()
    if d["k"] == "concurrent":
        toks = ["word", "&", "<", "a -->", "123"]
        for w in WRITERS:
            for n in (2, 3):
                for texts in itertools.product(toks, repeat=n):
                    for tail in TAILS:
                        v, out = eval_concurrent(w, list(texts), tail)
                        acc.case(("concurrent", w, texts, tail), True, out, {"writer": w, "captions_with_identical_times": list(texts), "earlier_captions_end_with": tail})
                        for sig, det in v:
                            acc.violation(sig, {"w": w, "concurrent": list(texts), "tail": tail}, det)
        for w in ("DFXPWriter", "SinglePositioningDFXPWriter", "LegacyDFXPWriter"):
            for texts in itertools.product(toks, repeat=2):
                for tail in TAILS:
                    for second in SECOND:
                        v, out = eval_concurrent(w, list(texts), tail, second)
                        acc.case(("concurrent", w, texts, tail, second), True, out, {"writer": w, "captions_with_identical_times": list(texts), "earlier_captions_end_with": tail, "second_language": second})
                        for sig, det in v:
                            acc.violation(sig, {"w": w, "concurrent": list(texts), "tail": tail, "second": second}, det)
        return acc.result()
    if d["k"] == "split":
        w = d["w"]
        toks = [t for t, _ in TOKENS]
        lines = toks + [a + b for a in toks for b in toks]
        for ln in lines:
            if w == "MicroDVDWriter" and "|" in ln:
                continue
            for k in range(1, len(ln)):
                if not ln[:k].strip() or not ln[k:].strip():
                    continue
                for styled in (False, True):
                    v, out = eval_split(w, ln, k, styled)
                    acc.case(("split", w, ln, k, styled), True, out, {"writer": w, "line": ln, "split_after": k, "second_node_in_class_only_span": styled})
                    for sig, det in v:
                        acc.violation(sig, {"w": w, "split": [ln, k, styled]}, det)
        return acc.result()
    if d["k"] == "padded":
        for w in WRITERS:
            for nl in (1, 2, 3):
                for lines in itertools.product(STRUCT, repeat=nl):
                    if w == "MicroDVDWriter" and any("|" in l for l in lines):
                        continue
                    for how in ("same-object", "equal-objects"):
                        items = [("P", how)] + items_from_lines(list(lines))
                        v, out = evaluate(w, items)
                        acc.case((w, lines, how, "padded"), True, (out, expected_lines(items)), {"writer": w, "nodes": items})
                        for sig, det in v:
                            acc.violation(sig, {"w": w, "items": items}, det)
        return acc.result()
    w = d["w"]
    if d["k"] == "single":
        for i, ln in enumerate(line_set(d["n"])):
            if i % d["nparts"] != d["part"]:
                continue
            if w == "MicroDVDWriter" and "|" in ln:
                continue
            items = [("t", ln)]
            v, out = evaluate(w, items)
            acc.case((w, ln), visible(ln), (out, expected_lines(items)), {"writer": w, "caption_lines": [ln]})
            for sig, det in v:
                acc.violation(sig, {"w": w, "items": items}, det)
            if w in ("DFXPWriter", "SinglePositioningDFXPWriter", "LegacyDFXPWriter", "SAMIWriter") and visible(ln) and ln.count(" ") == 0:
                # the same text as a line that carries a layout of its own inside a positioned caption
                items = [("t", "word"), ("b",), ("tl", ln)]
                v, out = evaluate(w, items)
                acc.case((w, ln, "tl"), True, (out, expected_lines(items)), {"writer": w, "nodes": items})
                for sig, det in v:
                    acc.violation(sig, {"w": w, "items": items}, det)
    else:
        nl = d["nl"]
        n = 0
        for lines in itertools.product(STRUCT, repeat=nl):
            for empties in itertools.product((0, 1, 2), repeat=nl + 1):
                for kind in ("break", "space-text", "style-pair", "style-open"):
                    if not any(empties) and kind != "break":
                        continue
                    if kind.startswith("style") and (nl > 2 or sum(empties) > 2):
                        continue
                    n += 1
                    if n % d["nparts"] != d["part"]:
                        continue
                    items = items_from_lines(list(lines), empties, kind)
                    v, out = evaluate(w, items)
                    acc.case((w, lines, empties, kind), True, (out, expected_lines(items)), {"writer": w, "nodes": items})
                    for sig, det in v:
                        acc.violation(sig, {"w": w, "items": items}, det)
    return acc.result()


def replay(case):
    if case.get("reuse"):
        return shared.replay(reuse_items(), reuse_eval, case["index"])
    if case.get("split"):
        v, _ = eval_split(case["w"], case["split"][0], case["split"][1], case["split"][2])
        return [{"sig": s, "detail": d} for s, d in v]
    if case.get("concurrent"):
        v, _ = eval_concurrent(case["w"], case["concurrent"], case["tail"], case.get("second"))
        return [{"sig": s, "detail": d} for s, d in v]
    items = [tuple(i) for i in case["items"]]
    v, _ = evaluate(case["w"], items)
    return [{"sig": s, "detail": d} for s, d in v]
