"""C08  Any chain of conversions preserves the cue timeline and text.

Explicit-state search over the conversion graph: nodes are canonical caption sets, edges are the five hops
read_F(write_F(.)) for F in {SRT, WebVTT, DFXP, SAMI, MicroDVD}. From every initial set of an enumerated family a BFS
follows all hop sequences up to a depth bound (equal canonical sets are merged); a reference model of the timeline
(exact integer arithmetic: floor to milliseconds, floor to 25 fps frames, SAMI's lost final end) is advanced in lock-step.
Invariant on every edge: same number of cues per language, same whitespace-normalised lines, times equal to the model's.
Fixpoint: taking the same hop again from the state it produced is a self-loop.
"""
import itertools

from mc import shared
from mc.acc import Acc, h8
from mc.ref import parsers

ID = "C08"
LEVEL = "model_checking"
RULE = (
    "initial sets = all timelines of 1..3 cues (each >= 1 s long, gaps down to 1 ms) over a 10-point instant grid (ms-aligned, frame-aligned and unaligned values, float traps) "
    "x text assignments over a 10-token alphabet (1-2 lines); transitions = the 5 hops; BFS to depth D with merging of equal canonical "
    "sets; two-language sets over the DFXP/SAMI sub-graph. states = distinct canonical sets reached, transitions = hops executed (all on "
    "the real writers/readers), plus one extra hop per edge for the fixpoint check. non-trivial = every initial set (>= 1 visible cue)"
)
ASSUMPTIONS = [
    "cues sorted, non-overlapping, at least one second long, below 24 hours, with visible text (the property's domain)",
    "multi-language sets only travel over DFXP and SAMI (the other formats carry one language)",
    "language codes are not compared for single-language sets (SRT / WebVTT / MicroDVD readers assign their own)",
]
TRUSTED = ["reference timeline model (integer arithmetic)"]
MANIFEST = {
    "technique": "explicit-state BFS over the conversion graph (states = canonical caption sets, transitions = write+read hops on the real code) with a reference timeline model in lock-step and a self-loop (fixpoint) check on every edge",
    "text": "Every hop sequence up to the depth bound from every initial set of the family is executed on the real writers and readers; after each hop the per-language cue list is compared with the model at the coarsest resolution reached, and the same hop is taken once more to show nothing drifts.",
    "note": "Depth 2 (quick: all 25 ordered pairs) / 3 plus a reduced depth-4 frontier (thorough); finite time grid and token alphabet.",
}

FORMATS = ["srt", "webvtt", "dfxp", "sami", "microdvd"]
DFXP_EXTRA = ["dfxp-single", "dfxp-legacy"]
POINTS = [0, 1000500, 2040000, 3999999, 5000000, 5001000, 8040000, 10000001, 3600000000, 86390000999]
TOKENS = ["word", "two words", "&", "<", "x > y", "a -->", "&amp;", "\u00e9", "it's", '"q"', "&gt;&gt; NARRATOR", "a &lt; b", "a&nbsp;b", "&#65;", "kidding ;> bye", "R&D;>", "<i>Previously</i>", "press <c> to go on", "<v Bob> hi", "x <b and y> 2"]


def bounds(tier):
    return {"depth": 2 if tier == "quick" else 3, "time_points": POINTS, "tokens": len(TOKENS)}


def hop(fmt, cs):
    import pycaption

    from pycaption.dfxp import extras

    # "dfxp-single" / "dfxp-legacy": DFXP written by the library's two other DFXP writers
    W = {"srt": pycaption.SRTWriter, "webvtt": pycaption.WebVTTWriter, "dfxp": pycaption.DFXPWriter, "sami": pycaption.SAMIWriter, "microdvd": pycaption.MicroDVDWriter,
         "dfxp-single": extras.SinglePositioningDFXPWriter, "dfxp-legacy": extras.LegacyDFXPWriter}
    R = {"srt": pycaption.SRTReader, "webvtt": pycaption.WebVTTReader, "dfxp": pycaption.DFXPReader, "sami": pycaption.SAMIReader, "microdvd": pycaption.MicroDVDReader}
    doc = shared.obj(W[fmt]).write(cs)
    return shared.obj(R.get(fmt, pycaption.DFXPReader)).read(doc), doc


def ref_hop(fmt, model):
    out = []
    for lang, cues in model:
        new = []
        for i, (s, e, lines) in enumerate(cues):
            if fmt == "microdvd":
                s2, e2 = (s * 25 // 1000000) * 40000, (e * 25 // 1000000) * 40000
            else:
                s2, e2 = (s // 1000) * 1000, (e // 1000) * 1000
                if fmt == "sami" and i == len(cues) - 1:
                    e2 = s2 + 4000000
            new.append((s2, e2, lines))
        out.append((lang, new))
    return out


STYLE_SPACER = "\x01"


def _vis(l):
    return "" if l == STYLE_SPACER else l


POSITIONED = "/positioned"  # suffix of the class of sets whose captions carry a layout (see build)


def build(model, positioned=False):
    from pycaption import Caption, CaptionList, CaptionNode, CaptionSet
    from pycaption.geometry import Layout, Padding, Point, Size, UnitEnum

    # positioned: every caption, and each of its nodes, carries one layout object with an origin and four different
    # paddings - the shape the DFXP reader gives the cues of a padded region
    pct = lambda v: Size(v, UnitEnum.PERCENT)  # noqa
    caps = {}
    for lang, cues in model:
        cl = CaptionList()
        for s, e, lines in cues:
            nodes = []
            opened = 0
            for i, ln in enumerate(lines):
                if i:
                    nodes.append(CaptionNode.create_break())
                if ln == STYLE_SPACER:
                    # an otherwise empty line that holds the opening node of a colour span (closed at the caption's end):
                    # no text, and nothing most writers can render
                    nodes.append(CaptionNode.create_style(True, {"color": "red"}))
                    opened += 1
                else:
                    nodes.append(CaptionNode.create_text(ln))
            nodes += [CaptionNode.create_style(False, {"color": "red"})] * opened
            lay = None
            if positioned:
                lay = Layout(origin=Point(pct(10), pct(70)), padding=Padding(before=pct(1), after=pct(2), start=pct(3), end=pct(6)))
                for n in nodes:
                    n.layout_info = lay
            cl.append(Caption(s, e, nodes, layout_info=lay))
        caps[lang] = cl
    return CaptionSet(caps)


def observe(cs):
    out = []
    for lang in cs.get_languages():
        cues = []
        for c in cs.get_captions(lang):
            lines, cur = [], ""
            for n in c.nodes:
                if n.type_ == 1:
                    cur += n.content
                elif n.type_ == 3:
                    lines.append(cur)
                    cur = ""
            lines.append(cur)
            cues.append((c.start, c.end, tuple(parsers.norm_line(l) for l in lines if parsers.norm_line(l))))
        out.append((lang, cues))
    return out


def same(obs, model):
    """None if the observation equals the model (language codes ignored for single-language sets)"""
    multi = len(model) > 1
    # a language that has no cue is not a cue: whether a format keeps its (empty) entry is not part of the property
    obs = [x for x in obs if x[1]]
    model = [x for x in model if x[1]]
    if len(obs) != len(model):
        return "language-count"
    pairs = zip(obs, model) if not multi else zip(sorted(obs), sorted(model))
    for (lo, co), (lm, cm) in pairs:
        if multi and lo != lm:
            return "language-codes"
        if len(co) != len(cm):
            return "cue-count"
        for (s, e, lines), (ms, me, mlines) in zip(co, cm):
            if tuple(lines) != tuple(parsers.norm_line(_vis(l)) for l in mlines if parsers.norm_line(_vis(l))):
                return "text"
            if s != ms:
                return "start"
            if e != me:
                return "end"
    return None


def explore(acc, model0, depth, formats, states_out, klass):
    try:
        cs0 = build(model0, klass.endswith(POSITIONED))
    except Exception as e:  # noqa
        return
    init_key = h8(repr(observe(cs0)))
    seen = {init_key}
    states_out.add(init_key)
    frontier = [([], cs0, model0)]
    for level in range(depth):
        nxt = []
        for path, cs, model in frontier:
            for fmt in formats:
                p2 = path + [fmt]
                case = {"model": model0, "path": p2, "klass": klass}
                try:
                    cs2, doc = hop(fmt, cs)
                except Exception as e:  # noqa
                    acc.violation(f"C08/{klass}/raises:{type(e).__name__}@{fmt}/after:{'>'.join(path) or '-'}", case, {"err": str(e)[:300]})
                    continue
                acc.transitions += 1
                acc.traces += 1
                m2 = ref_hop(fmt, model)
                obs = observe(cs2)
                why = same(obs, m2)
                acc.case((model0, p2, klass), True, h8(repr(obs)), {"initial": model0, "chain": p2} if len(p2) == depth else None)
                if why:
                    acc.violation(f"C08/{klass}/{why}-differs@{fmt}/after:{'>'.join(path) or '-'}", case, {"got": obs, "want": m2, "doc": doc[-600:]})
                    continue
                # fixpoint: the same hop again is a self-loop
                try:
                    cs3, _ = hop(fmt, cs2)
                    acc.transitions += 1
                    if same(observe(cs3), ref_hop(fmt, m2)) or same(observe(cs3), [(l, [(s, e, lines) for s, e, lines in c]) for l, c in obs]):
                        acc.violation(f"C08/{klass}/second-pass-changes-result@{fmt}/after:{'>'.join(path) or '-'}", case, {"first": obs, "second": observe(cs3)})
                except Exception as e:  # noqa
                    acc.violation(f"C08/{klass}/second-pass-raises:{type(e).__name__}@{fmt}", case, {"err": str(e)[:200]})
                key = h8(repr(obs))
                states_out.add(key)
                if key not in seen:
                    seen.add(key)
                    nxt.append((p2, cs2, m2))
        frontier = nxt


def timelines():
    n = len(POINTS)
    for k in (1, 2, 3):
        for combo in itertools.combinations(range(n), 2 * k):
            tl = [(POINTS[combo[2 * i]], POINTS[combo[2 * i + 1]]) for i in range(k)]
            if any(e - s < 1000000 for s, e in tl):
                continue  # a cue shorter than a second may collapse to nothing at frame resolution
            yield tl


def single_models(tier):
    out = []
    for ti, tl in enumerate(timelines()):
        variants = range(len(TOKENS)) if tier == "thorough" else [ti % len(TOKENS), (3 * ti + 1) % len(TOKENS), (7 * ti + 5) % len(TOKENS)]
        for r in variants:
            cues = []
            for i, (s, e) in enumerate(tl):
                tok = TOKENS[(i + r) % len(TOKENS)]
                lines = (tok,) if (i + r) % 3 else (tok, TOKENS[(i + r + 4) % len(TOKENS)])
                if (i + r) % 5 == 4:
                    # a spacer line (blank / white-space only) between two visible lines: dropped by the
                    # white-space-normalised comparison, but it must not cut the cue
                    lines = (tok, ["", " ", "\u00a0", STYLE_SPACER][(i + r) % 4], TOKENS[(i + r + 2) % len(TOKENS)])
                cues.append((s, e, lines))
            out.append([("en-US", cues)])
    return out


def double_models():
    out = []
    pts = [1000500, 2040000, 3999999, 9040000, 10000001, 12500000]  # millisecond counts of four and of five digits
    for a in itertools.combinations(range(6), 2):
        for b in itertools.combinations(range(6), 4):
            out.append([
                ("en-US", [(pts[a[0]], pts[a[1]], ("one & <two>",))]),
                ("fr-FR", [(pts[b[0]], pts[b[1]], ("un",)), (pts[b[2]], pts[b[3]], ("deux", "\u00e9"))]),
            ])
    # densely interleaved cues of two languages cut at different instants, straddling the 10 s and the 100 s mark (millisecond
    # counts of different lengths next to one another)
    for shift in (0, 90000000):
        a_ = [(8000000, 9000000, ("Good evening.",)), (9500000, 10400000, ("Welcome & hello",)), (11000000, 12500000, ("Tonight:", "three guests"))]
        b_ = [(8200000, 9200000, ("Bonsoir.",)), (9700000, 10100000, ("Bienvenue.",)), (10500000, 10900000, ("Ce soir :",)), (11200000, 12700000, ("trois invit\u00e9s",))]
        sh_ = lambda cues: [(x + shift, y + shift, t) for x, y, t in cues]  # noqa: E731
        out.append([("en-US", sh_(a_)), ("fr-FR", sh_(b_))])
        out.append([("fr-FR", sh_(b_)), ("en-US", sh_(a_))])
    # a language that has no cue at all, before or after the one that has
    for a in itertools.combinations(range(6), 2):
        out.append([("en-US", [(pts[a[0]], pts[a[1]], ("one & <two>",))]), ("fr-FR", [])])
        out.append([("fr-FR", []), ("en-US", [(pts[a[0]], pts[a[1]], ("one & <two>",))])])
    return out


def reuse_items():
    ms = single_models("quick")[::29] + double_models()[::37]
    items = []
    for i, m in enumerate(ms):
        fmts = FORMATS if len(m) == 1 else ["dfxp", "sami"]
        items.append((m, [fmts[i % len(fmts)], fmts[(i // 2 + 1) % len(fmts)]]))
    return items


def reuse_eval(item):
    res = replay({"model": item[0], "path": item[1], "klass": "reuse-run"})
    return [(r["sig"], r["detail"]) for r in res], tuple(item[1])


def shards(tier, seed):
    n = len(single_models(tier))
    parts = 32 if tier == "quick" else 96
    sh = [{"k": "single", "part": p, "nparts": parts, "tier": tier, "depth": bounds(tier)["depth"]} for p in range(parts)]
    sh += [{"k": "double", "part": p, "nparts": 4, "tier": tier} for p in range(4)]
    sh += [{"k": "reuse"}]
    if tier == "thorough":
        sh += [{"k": "deep", "part": p, "nparts": 16} for p in range(16)]
    return sh


def run_shard(d):
    acc = Acc()
    states = set()
    if d["k"] == "single":
        for i, m in enumerate(single_models(d["tier"])):
            if i % d["nparts"] != d["part"]:
                continue
            explore(acc, m, d["depth"], FORMATS, states, "one-language")
            if i % 5 == 0:
                explore(acc, m, 2, FORMATS, states, "one-language" + POSITIONED)
            if i % 5 == 1:
                explore(acc, m, 2, FORMATS + DFXP_EXTRA, states, "one-language/all-dfxp-writers")
    elif d["k"] == "reuse":
        shared.run(acc, reuse_items(), reuse_eval, sample=lambda it: {"reuse_run_step": [it[0], it[1]]})
    elif d["k"] == "double":
        for i, m in enumerate(double_models()):
            if i % d["nparts"] != d["part"]:
                continue
            explore(acc, m, 3, ["dfxp", "sami"], states, "two-languages")
            explore(acc, m, 2, ["dfxp", "sami"] + DFXP_EXTRA, states, "two-languages/all-dfxp-writers")
            if i % 3 == 0:
                explore(acc, m, 2, ["dfxp", "sami"], states, "two-languages" + POSITIONED)
    else:
        ms = single_models("quick")
        for i, m in enumerate(ms[::7]):
            if i % d["nparts"] != d["part"]:
                continue
            explore(acc, m, 4, FORMATS, states, "one-language")
    res = acc.result()
    res["extra"] = {"state_hashes": sorted(states)}
    return res


def finish(agg, tier, seed):
    u = set()
    for e in agg["extra"]:
        if e:
            u.update(e["state_hashes"])
    agg["states"] = len(u)


def _m(model):
    return [(lang, [(s, e, tuple(lines)) for s, e, lines in cues]) for lang, cues in model]


def replay(case):
    if case.get("reuse"):
        return shared.replay(reuse_items(), reuse_eval, case["index"])
    model0 = _m(case["model"])
    path = case["path"]
    klass = case.get("klass", "one-language")
    cs = build(model0, klass.endswith(POSITIONED))
    model = model0
    out = []
    for i, fmt in enumerate(path):
        prefix = path[:i]
        try:
            cs2, doc = hop(fmt, cs)
        except Exception as e:  # noqa
            return [{"sig": f"C08/{klass}/raises:{type(e).__name__}@{fmt}/after:{'>'.join(prefix) or '-'}", "detail": str(e)[:200]}]
        m2 = ref_hop(fmt, model)
        obs = observe(cs2)
        why = same(obs, m2)
        if why:
            return [{"sig": f"C08/{klass}/{why}-differs@{fmt}/after:{'>'.join(prefix) or '-'}", "detail": {"got": obs, "want": m2}}]
        if i == len(path) - 1:
            cs3, _ = hop(fmt, cs2)
            if same(observe(cs3), ref_hop(fmt, m2)):
                out.append({"sig": f"C08/{klass}/second-pass-changes-result@{fmt}/after:{'>'.join(prefix) or '-'}", "detail": {"first": obs, "second": observe(cs3)}})
        cs, model = cs2, m2
    return out
