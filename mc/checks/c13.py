"""C13  Absolute sizes are relativized exactly or refused; fit-to-screen stays safe.

E3: layouts in which one or two axes (origin x/y, extent w/h, the four padding sides) carry a (value, unit) from the
full unit x value grid are written by DFXPWriter / SAMIWriter / WebVTTWriter under every video-size configuration,
with relativize and fit_to_screen on/off. Oracle: exact Fraction arithmetic (px*100/dim, 1em = 16px, 1pt = 4/3 px,
32x15 cells), two-decimal printing, RelativizationError exactly when a needed dimension is missing; fit-to-screen edge
arithmetic on a 0.5% lattice around the 90/95 edges.
"""
import itertools
import re
from fractions import Fraction

from mc import shared
from mc.acc import Acc
from mc.ref import parsers

ID = "C13"
LEVEL = "exploration"
RULE = (
    "single-axis deviations: 8 axes x 5 units x 9 values x 6 video-size configurations x fit on/off (DFXP), padding axes for SAMI, "
    "origin/extent axes for WebVTT; two-axis deviations: all axis pairs x unit pairs; fit lattice: origin 85..90.5 x 90..95.5 step 0.5 "
    "x 4x4 extent relations. distinct = distinct (writer, options, layout); non-trivial = all"
)
ASSUMPTIONS = [
    "written value within 0.005 of the exact percentage (either rounding of an exact tie) and printed with at most two decimals",
    "relativize=False combined with fit_to_screen=True on absolute units is not described by the property and not explored",
]
TRUSTED = ["fractions.Fraction", "lxml strict XML parser", "mc.ref.parsers"]
MANIFEST = {
    "technique": "bounded-exhaustive enumeration of (axis, unit, value, video size, options) layouts x writers; oracle = exact Fraction unit conversion and fit-to-screen edge arithmetic on the parsed output",
    "text": "Every layout of the grid is written by the real writers; the written lengths are parsed from the output and compared with exact arithmetic; the error path for each missing dimension and the 90/95 edge arithmetic are decided case by case.",
    "note": "Value grid is sampled (9 values); units, axes and video-size configurations are exhaustive.",
}

UNITS = ["px", "em", "pt", "c", "%"]
VALUES = ["0", "0.5", "1", "7", "16", "33.333", "100", "640", "1919", "128.01", "20.001", "99.996"]
VIDEO = [(640, 360), (1920, 1080), (1, 1), (640, None), (None, 360), (None, None), (480, 480)]
AXES = ["ox", "oy", "ew", "eh", "pb", "pa", "ps", "pe"]
HORIZ = {"ox", "ew", "ps", "pe"}
BASE = {"ox": ("10", "%"), "oy": ("20", "%"), "ew": ("30", "%"), "eh": ("40", "%"), "pb": ("1", "%"), "pa": ("2", "%"), "ps": ("3", "%"), "pe": ("4", "%")}


VALUES_T = VALUES + ["0.01", "12.345", "99.99", "720", "1080", "3840"]
VIDEO_T = VIDEO + [(720, 576), (3840, 2160), (1, 1080), (1920, 1)]


def bounds(tier):
    return {"units": UNITS, "values": VALUES if tier == "quick" else VALUES_T, "video": VIDEO if tier == "quick" else VIDEO_T, "axes": AXES}


def exact_pct(value, unit, axis, vw, vh):
    """-> Fraction percentage, or 'error' when the needed dimension is missing"""
    v = Fraction(value)
    if unit == "%":
        return v
    dim = vw if axis in HORIZ else vh
    if not dim:
        return "error"
    if unit == "em":
        v = v * 16
        unit = "px"
    if unit == "pt":
        v = v * 4 / 3
        unit = "px"
    if unit == "px":
        return v * 100 / dim
    if unit == "c":
        return v * 100 / (32 if axis in HORIZ else 15)
    raise ValueError(unit)


def mk_layout(spec, with_extent=True, with_padding=True):
    from pycaption.geometry import Layout, Padding, Point, Size, Stretch, UnitEnum

    def sz(a):
        return Size(float(spec[a][0]), UnitEnum(spec[a][1]))

    return Layout(
        origin=Point(sz("ox"), sz("oy")),
        extent=Stretch(sz("ew"), sz("eh")) if with_extent else None,
        padding=Padding(before=sz("pb"), after=sz("pa"), start=sz("ps"), end=sz("pe")) if with_padding else None,
    )


def mk_set(layout, level="caption"):
    """level: 'lang' (CaptionList layout), 'caption', or 'node' (a flat style span, the way readers attach
    node-level layouts: its two STYLE nodes and the TEXT node inside carry the layout)"""
    from pycaption import Caption, CaptionList, CaptionNode, CaptionSet

    cap_l = layout if level == "caption" else None
    if level == "node":
        nodes = [
            CaptionNode.create_style(True, {"italics": True}, layout_info=layout),
            CaptionNode.create_text("text", layout_info=layout),
            CaptionNode.create_style(False, {"italics": True}, layout_info=layout),
        ]
    else:
        nodes = [CaptionNode.create_text("text")]
    cl = CaptionList([Caption(1000000, 2000000, nodes, layout_info=cap_l)])
    if level == "lang":
        cl.layout_info = layout
    return CaptionSet({"en-US": cl})


def mk_set_from_doc(spec):
    """the same layout, but as the DFXP reader builds it from a region whose lengths are spelled in a document"""
    from pycaption import DFXPReader

    from mc.ref import docs

    g = lambda a: spec[a][0] + spec[a][1]  # noqa: E731
    region = f'<region xml:id="r1" tts:origin="{g("ox")} {g("oy")}" tts:extent="{g("ew")} {g("eh")}" tts:padding="{g("pb")} {g("pe")} {g("pa")} {g("ps")}"/>'
    doc = docs.dfxp_doc([("en-US", [('begin="1s" end="2s" region="r1"', "text")])], head=f"<layout>{region}</layout>")
    return shared.obj(DFXPReader).read(doc)


PCT = re.compile(r"^(\d+(?:\.\d{1,2})?)%$")


def close(written, exact):
    m = PCT.match(written)
    if not m:
        return False
    return abs(Fraction(m.group(1)) - exact) <= Fraction(1, 200) + Fraction(1, 10 ** 9)


def dfxp_region_attrs(doc):
    """attributes of the region that applies to the caption's text (span region, else p, else div)"""
    t = parsers.parse_ttml(doc)
    root = t["root"]
    ps = [p for d in t["divs"] for p in d["ps"]]
    rid = None
    for sp in ps[0]["el"].iter("{%s}span" % parsers.TTML_NS):
        rid = sp.get("region") or rid
    rid = rid or ps[0]["el"].get("region")
    for r in root.iter("{%s}region" % parsers.TTML_NS):
        if r.get("{%s}id" % parsers.XML_NS) == rid:
            g = lambda k: r.get("{%s}%s" % (parsers.TTS_NS, k))
            return {"origin": g("origin"), "extent": g("extent"), "padding": g("padding")}
    return None


def eval_dfxp(spec, video, fit, level, prior=None):
    """prior: a video size for which the very same caption set object was written before (by another DFXPWriter); what
    is written now must not depend on that"""
    from pycaption import DFXPWriter
    from pycaption.exceptions import RelativizationError

    vw, vh = video
    exp = {a: exact_pct(spec[a][0], spec[a][1], a, vw, vh) for a in AXES}
    want_err = any(e == "error" for e in exp.values())
    v = []
    klass = "+".join(sorted({spec[a][1] for a in AXES if spec[a][1] != "%"})) or "percent"
    try:
        src = mk_set_from_doc(spec) if level == "document" else mk_set(mk_layout(spec), level)
        if prior:
            try:
                DFXPWriter(relativize=True, video_width=prior[0], video_height=prior[1]).write(src)
            except Exception:  # noqa
                pass
        doc = shared.obj(DFXPWriter, relativize=True, video_width=vw, video_height=vh, fit_to_screen=fit).write(src)
    except RelativizationError:
        if not want_err:
            v.append((f"C13/dfxp/unexpected-RelativizationError/{klass}", {"spec": spec, "video": video}))
        return v, "relativization-error"
    except Exception as e:  # noqa
        v.append((f"C13/dfxp/raises:{type(e).__name__}/{klass}", {"err": str(e)[:200]}))
        return v, "raises"
    if want_err:
        v.append((f"C13/dfxp/missing-dimension-not-refused/{klass}", {"spec": spec, "video": video, "doc": doc[:900]}))
        return v, "no-error"
    attrs = dfxp_region_attrs(doc)
    if not attrs or not attrs["origin"]:
        v.append((f"C13/dfxp/region-missing/{klass}", {"doc": doc[:900]}))
        return v, "no-region"
    ox, oy = attrs["origin"].split(" ")
    got = {"ox": ox, "oy": oy}
    if attrs["extent"]:
        got["ew"], got["eh"] = attrs["extent"].split(" ")
    if attrs["padding"]:
        got["pb"], got["pe"], got["pa"], got["ps"] = attrs["padding"].split(" ")
    want = dict(exp)
    if fit:
        # the extent may have been clamped: right edge <= 90, bottom <= 95
        if want["ox"] + want["ew"] > 90:
            want["ew"] = 90 - want["ox"]
        if want["oy"] + want["eh"] > 95:
            want["eh"] = 95 - want["oy"]
    for a in AXES:
        if a not in got:
            v.append((f"C13/dfxp/attribute-missing:{a}/{klass}", {"attrs": attrs}))
        elif not close(got[a], want[a]):
            if fit and a in ("ew", "eh") and (want[a] < 0):
                continue  # origin outside the safe area: not described
            if fit and level == "lang" and a in ("ew", "eh") and close(got[a], exp[a]):
                continue  # language-level layouts are relativized but not fitted (pinned by tests/test_dfxp_conversion.py::test_empty_cue)
            v.append((f"C13/dfxp/wrong-value:{a}/{spec[a][1]}", {"axis": a, "written": got[a], "exact": float(want[a]), "spec": spec, "video": video}))
    return v, tuple(sorted(got.items()))


def eval_sami(spec, video):
    from pycaption import SAMIWriter
    from pycaption.exceptions import RelativizationError

    vw, vh = video
    pads = ["pb", "pa", "ps", "pe"]
    exp = {a: exact_pct(spec[a][0], spec[a][1], a, vw, vh) for a in pads}
    oexp = [exact_pct(spec[a][0], spec[a][1], a, vw, vh) for a in ("ox", "oy", "ew", "eh")]
    want_err = any(e == "error" for e in list(exp.values()) + oexp)
    klass = "+".join(sorted({spec[a][1] for a in AXES if spec[a][1] != "%"})) or "percent"
    v = []
    try:
        doc = shared.obj(SAMIWriter, relativize=True, video_width=vw, video_height=vh, fit_to_screen=False).write(mk_set(mk_layout(spec), "lang"))
    except RelativizationError:
        if not want_err:
            v.append((f"C13/sami/unexpected-RelativizationError/{klass}", {"spec": spec, "video": video}))
        return v, "relativization-error"
    except Exception as e:  # noqa
        return [(f"C13/sami/raises:{type(e).__name__}/{klass}", {"err": str(e)[:200]})], "raises"
    if want_err:
        return [(f"C13/sami/missing-dimension-not-refused/{klass}", {"spec": spec, "video": video, "doc": doc[:700]})], "no-error"
    got = {}
    for css, a in (("margin-top", "pb"), ("margin-bottom", "pa"), ("margin-left", "ps"), ("margin-right", "pe")):
        m = re.search(css + r":\s*([^;]+);", doc)
        got[a] = m.group(1).strip() if m else None
    for a in pads:
        if got[a] is None:
            v.append((f"C13/sami/margin-missing:{a}/{klass}", {"doc": doc[:700]}))
        elif not close(got[a], exp[a]):
            v.append((f"C13/sami/wrong-value:{a}/{spec[a][1]}", {"axis": a, "written": got[a], "exact": float(exp[a]), "spec": spec, "video": video}))
    return v, tuple(sorted(got.items()))


ABS_LEN = re.compile(r"\d(?:px|em|pt|c)\b")


def eval_vtt(spec, video, relativize, fit=False, padded=False):
    from pycaption import WebVTTWriter
    from pycaption.exceptions import RelativizationError

    vw, vh = video
    axes = ("ox", "oy", "ew", "eh") + (("pb", "ps", "pe") if padded else ())
    exp = {a: exact_pct(spec[a][0], spec[a][1], a, vw, vh) for a in axes}
    klass = ("+".join(sorted({spec[a][1] for a in axes if spec[a][1] != "%"})) or "percent") + ("/padded" if padded else "")
    all_rel = all(spec[a][1] == "%" for a in axes)
    want_err = relativize and any(e == "error" for e in exp.values())
    v = []
    try:
        doc = shared.obj(WebVTTWriter, relativize=relativize, video_width=vw, video_height=vh, fit_to_screen=fit).write(mk_set(mk_layout(spec, True, padded)))
    except RelativizationError:
        if not want_err:
            v.append((f"C13/webvtt/unexpected-RelativizationError/{klass}", {"spec": spec, "video": video}))
        return v, "relativization-error"
    except Exception as e:  # noqa
        return [(f"C13/webvtt/raises:{type(e).__name__}/{klass}", {"err": str(e)[:200]})], "raises"
    if want_err:
        return [(f"C13/webvtt/missing-dimension-not-refused/{klass}", {"spec": spec, "video": video, "doc": doc})], "no-error"
    cues = parsers.parse_vtt(doc)
    settings = cues[0]["settings"]
    if ABS_LEN.search(settings):
        v.append((f"C13/webvtt/non-percentage-length/{klass}", {"settings": settings}))
    if relativize or all_rel:
        got = dict(kv.split(":", 1) for kv in settings.split() if ":" in kv)
        vals = {a: (exp[a] if relativize else Fraction(spec[a][0])) for a in axes}
        if fit and vals["ox"] + vals["ew"] > 90:
            vals["ew"] = 90 - vals["ox"]  # fit-to-screen: the right edge stays inside the safe area
        if padded:
            # the cue box lies inside the paddings: position / line move in by the start / before padding, the width
            # loses both horizontal paddings (so the right edge of the text stays where the region's was, minus "end")
            vals = dict(vals, ox=vals["ox"] + vals["ps"], oy=vals["oy"] + vals["pb"], ew=vals["ew"] - vals["ps"] - vals["pe"])
        for key, a in (("position", "ox"), ("line", "oy"), ("size", "ew")):
            e = vals[a]
            if fit and a == "ew" and e < 0:
                continue  # origin outside the safe area: not described
            if e == 0:
                continue  # a zero offset may be omitted
            if key not in got:
                v.append((f"C13/webvtt/setting-missing:{key}/{klass}", {"settings": settings}))
            elif not close(got[key], e):
                v.append((f"C13/webvtt/wrong-value:{key}/{spec[a][1]}", {"written": got[key], "exact": float(e), "spec": spec, "video": video}))
    elif any(k in settings for k in ("position:", "line:", "size:")):
        v.append((f"C13/webvtt/absolute-layout-not-ignored/{klass}", {"settings": settings}))
    return v, settings


def eval_fit_absolute(ox, oy, ext, writer="DFXPWriter"):
    """relativization off, fit-to-screen on, origin in pixels (extent none / pixels / percent): the safe area is defined in
    percentages, so the writer either refuses (the documented ValueError "Units must be relativized ...") or leaves the
    lengths alone - it never derives a percentage extent from pixel numbers"""
    import pycaption
    from pycaption.geometry import Layout, Point, Size, Stretch, UnitEnum

    px = lambda n: Size(n, UnitEnum.PIXEL)  # noqa: E731
    pc = lambda n: Size(n, UnitEnum.PERCENT)  # noqa: E731
    extent = {"none": None, "px": Stretch(px(200), px(100)), "mixed": Stretch(pc(10), px(200))}[ext]
    layout = Layout(origin=Point(ox, oy), extent=extent)
    klass = f"origin-in-pixels/extent-{ext}"
    try:
        doc = getattr(pycaption, writer)(relativize=False, fit_to_screen=True).write(mk_set(layout, "caption"))
    except ValueError:
        return [], "refused"  # "Units must be relativized ..." / "The sizes should have the same measure units."
    except Exception as e:  # noqa
        return [(f"C13/fit/raises:{type(e).__name__}/{klass}", {"err": str(e)[:200]})], "raises"
    v = []
    if writer == "DFXPWriter":
        attrs = dfxp_region_attrs(doc)
        ex = (attrs or {}).get("extent")
        if ex and ext != "mixed" and "%" in ex:
            v.append((f"C13/fit/percentage-extent-derived-from-pixel-lengths/{klass}", {"attrs": attrs}))
        if ex and any(part.startswith("-") for part in ex.split(" ")):
            v.append((f"C13/fit/negative-extent/{klass}", {"attrs": attrs}))
        return v, (attrs or {}).get("extent")
    settings = parsers.parse_vtt(doc)[0]["settings"]
    if ABS_LEN.search(settings) or "-" in settings.replace("align:", ""):
        v.append((f"C13/fit/webvtt-setting-from-pixel-lengths/{klass}", {"settings": settings}))
    return v, settings


def eval_doc_padding(vals, video):
    """a DFXP region whose tts:padding is spelled with one to four lengths (TTML order: before end after start) is read
    and written back with relativization: each edge must be the percentage of its own axis"""
    from pycaption import DFXPReader, DFXPWriter

    from mc.ref import docs

    z = list(vals)
    if len(z) == 1:
        before = end = after = start = z[0]
    elif len(z) == 2:
        before, end, after, start = z[0], z[1], z[0], z[1]
    elif len(z) == 3:
        before, end, after, start = z[0], z[1], z[2], z[1]
    else:
        before, end, after, start = z
    vw, vh = video
    spelled = " ".join(v_ + u_ for v_, u_ in z)
    doc = docs.dfxp_doc([("en-US", [('begin="1s" end="2s" region="r1"', "text")])], head=f'<layout><region xml:id="r1" tts:origin="10% 10%" tts:extent="50% 50%" tts:padding="{spelled}"/></layout>')
    klass = f"padding-arity{len(z)}/" + "+".join(sorted({u_ for _, u_ in z}))
    try:
        out = shared.obj(DFXPWriter, relativize=True, video_width=vw, video_height=vh, fit_to_screen=False).write(shared.obj(DFXPReader).read(doc))
    except Exception as e:  # noqa
        return [(f"C13/dfxp-document/raises:{type(e).__name__}/{klass}", {"err": str(e)[:200], "padding": spelled})], "raises"
    attrs = dfxp_region_attrs(out)
    if not attrs or not attrs["padding"]:
        return [(f"C13/dfxp-document/padding-missing/{klass}", {"padding": spelled, "doc": out[:900]})], "missing"
    got = dict(zip(("pb", "pe", "pa", "ps"), attrs["padding"].split(" ")))
    v = []
    for a, (val, unit) in (("pb", before), ("pe", end), ("pa", after), ("ps", start)):
        want = exact_pct(val, unit, a, vw, vh)
        if a not in got or not close(got[a], want):
            v.append((f"C13/dfxp-document/wrong-value:{a}/{klass}", {"padding": spelled, "written": attrs["padding"], "edge": a, "exact": float(want), "video": video}))
            break
    return v, attrs["padding"]


def eval_fit(x, y, wrel, hrel, level, variant=None):
    """origin (x,y) percent; extent relation: None / 'fit' (exactly reaching the edge) / 'over' (+0.01) / 'big' (+50) / 'small' (half of the room)"""
    from pycaption import DFXPWriter
    from pycaption.geometry import Layout, Point, Size, Stretch, UnitEnum

    X, Y = Fraction(x), Fraction(y)
    roomx, roomy = 90 - X, 95 - Y

    def ext(rel, room):
        if rel == "fit":
            return room
        if rel == "over":
            return room + Fraction(1, 100)
        if rel == "big":
            return room + 50
        return room / 2

    v = []
    if wrel is None:
        layout = Layout(origin=Point(Size(float(X), UnitEnum.PERCENT), Size(float(Y), UnitEnum.PERCENT)))
        want_w, want_h = roomx, roomy
    else:
        w, h = ext(wrel, roomx), ext(hrel, roomy)
        if w < 0 or h < 0:
            return [], "skip"
        layout = Layout(origin=Point(Size(float(X), UnitEnum.PERCENT), Size(float(Y), UnitEnum.PERCENT)), extent=Stretch(Size(float(w), UnitEnum.PERCENT), Size(float(h), UnitEnum.PERCENT)))
        want_w = roomx if wrel in ("over", "big") else w
        want_h = roomy if hrel in ("over", "big") else h
    if roomx < 0 or roomy < 0:
        return [], "outside-safe-area"
    vx = ""
    try:
        if variant == "absolute-padding-relativize-off":
            # origin and extent are percentages (fit applies to them); only the padding is absolute and stays so
            from pycaption.geometry import Padding

            px = lambda n: Size(n, UnitEnum.PIXEL)  # noqa: E731
            layout = Layout(origin=layout.origin, extent=layout.extent, padding=Padding(before=px(5), after=px(5), start=px(8), end=px(8)))
            vx = "/" + variant
            doc = shared.obj(DFXPWriter, relativize=False, fit_to_screen=True).write(mk_set(layout, level))
        else:
            doc = shared.obj(DFXPWriter, fit_to_screen=True).write(mk_set(layout, level))
    except Exception as e:  # noqa
        return [(f"C13/fit/raises:{type(e).__name__}{vx}", {"err": str(e)[:200]})], "raises"
    attrs = dfxp_region_attrs(doc)
    if not attrs or not attrs["extent"]:
        return [(f"C13/fit/no-extent-written/{wrel}-{hrel}{vx}", {"attrs": attrs, "origin": [x, y]})], "no-extent"
    gw, gh = attrs["extent"].split(" ")
    ox, oy = attrs["origin"].split(" ")
    klass = f"{wrel}-{hrel}{vx}"
    if not close(gw, want_w) or not close(gh, want_h):
        v.append((f"C13/fit/wrong-extent/{klass}", {"origin": [x, y], "written": attrs["extent"], "want": [float(want_w), float(want_h)]}))
    mw, mh = PCT.match(gw), PCT.match(gh)
    if mw and mh:
        if Fraction(ox[:-1]) + Fraction(mw.group(1)) > 90 + Fraction(1, 100) or Fraction(oy[:-1]) + Fraction(mh.group(1)) > 95 + Fraction(1, 100):
            v.append((f"C13/fit/edge-exceeds-safe-area/{klass}", {"origin": attrs["origin"], "extent": attrs["extent"]}))
    return v, (attrs["origin"], attrs["extent"])


# -------------------------------------------------------------------------------------------------
def reuse_items():
    items = []
    i = 0
    for a in AXES:
        for unit in UNITS:
            for val in ("7", "33.333", "128.01"):
                spec = spec_with(**{a: (val, unit)})
                video = VIDEO[i % 2]  # (640,360) / (1920,1080): the same writer objects see many layouts
                items.append(("dfxp", spec, video, bool(i % 2), ("caption", "node", "lang")[i % 3]))
                if a in ("ps", "pe", "pb", "pa"):
                    items.append(("sami", spec, video))
                else:
                    items.append(("vtt", spec, video, True))
                i += 1
    return items


def reuse_eval(item):
    if item[0] == "dfxp":
        return eval_dfxp(item[1], item[2], item[3], item[4])
    if item[0] == "sami":
        return eval_sami(item[1], item[2])
    return eval_vtt(item[1], item[2], item[3])


def shards(tier, seed):
    sh = [{"k": "reuse"}]
    for a in AXES:
        sh.append({"k": "dfxp1", "axis": a, "tier": tier})
    if tier == "thorough":
        for part in range(2, 10):
            sh.append({"k": "dfxp2", "part": part, "tier": tier})
    sh.append({"k": "dfxp2", "part": 0})
    sh.append({"k": "dfxp2", "part": 1})
    sh.append({"k": "sami", "tier": tier})
    sh.append({"k": "doc-padding"})
    sh.append({"k": "vtt", "tier": tier})
    sh.append({"k": "fit", "level": "caption"})
    sh.append({"k": "fit", "level": "node"})
    return sh


def spec_with(**kw):
    s = dict(BASE)
    s.update(kw)
    return s


def run_shard(d):
    acc = Acc()
    k = d["k"]
    VALUES = bounds(d.get("tier", "quick"))["values"]  # noqa: N806
    VIDEO = bounds(d.get("tier", "quick"))["video"]  # noqa: N806
    if k == "reuse":
        shared.run(acc, reuse_items(), reuse_eval, sample=lambda it: {"reuse_run_step": list(it)})
    elif k == "dfxp1":
        a = d["axis"]
        for unit in UNITS:
            for val in VALUES:
                specs_ = [spec_with(**{a: (val, unit)})]
                if a == "ox":
                    specs_.append(spec_with(ox=(val, unit), oy=(val, unit)))  # the same length on both axes
                if a == "ew":
                    specs_.append(spec_with(ew=(val, unit), eh=(val, unit)))
                for si, spec in enumerate(specs_):
                    for video in VIDEO:
                        for fit in (False, True):
                            for level in ("caption", "node", "lang", "document"):
                                if level in ("node", "lang") and val not in ("7", "33.333"):
                                    continue
                                v, out = eval_dfxp(spec, video, fit, level)
                                acc.case(("dfxp", a, si, unit, val, video, fit, level), True, out, {"writer": "DFXPWriter", "axis": a, "value": val + unit, "both_axes": bool(si), "video": video, "fit_to_screen": fit, "level": level})
                                for sig, det in v:
                                    acc.violation(sig, {"k": "dfxp", "spec": spec, "video": video, "fit": fit, "level": level}, det)
                                if val in ("7", "33.333") and not fit and video in (VIDEO[0], (None, None)):
                                    prior = (1280, 720)
                                    v, out = eval_dfxp(spec, video, fit, level, prior)
                                    acc.case(("dfxp-second-use", a, si, unit, val, video, level), True, out, {"writer": "DFXPWriter", "axis": a, "value": val + unit, "video": video, "level": level, "same_set_written_before_for_video": prior})
                                    for sig, det in v:
                                        acc.violation(sig + "/set-written-before-for-another-video-size", {"k": "dfxp", "spec": spec, "video": video, "fit": fit, "level": level, "prior": prior}, det)
    elif k == "dfxp2":
        n = 0
        for a, b in itertools.combinations(AXES, 2):
            for ua, ub in itertools.product(UNITS[:4], repeat=2):
                n += 1
                if d["part"] < 2:
                    if n % 2 != d["part"]:
                        continue
                    va, vb = "7", "16"
                else:
                    if n % 8 != d["part"] - 2:
                        continue
                    va, vb = "33.333", "0.5"
                spec = spec_with(**{a: (va, ua), b: (vb, ub)})
                for video in VIDEO:
                    v, out = eval_dfxp(spec, video, False, "caption")
                    acc.case(("dfxp2", a, b, ua, ub, video), True, out, {"writer": "DFXPWriter", "axes": [a, b], "units": [ua, ub], "video": video})
                    for sig, det in v:
                        acc.violation(sig, {"k": "dfxp", "spec": spec, "video": video, "fit": False, "level": "caption"}, det)
    elif k == "doc-padding":
        lens = [("18", "px"), ("64", "px"), ("1", "em"), ("2", "c"), ("3", "%"), ("0.5", "em")]
        for n in (1, 2, 3, 4):
            for combo in itertools.product(lens, repeat=n):
                if n == 4 and len({u_ for _, u_ in combo}) > 2:
                    continue
                for video in ((640, 360), (480, 480)):
                    v, out = eval_doc_padding(combo, video)
                    acc.case(("doc-padding", combo, video), True, out, {"tts:padding": " ".join(a_ + b_ for a_, b_ in combo), "video": video})
                    for sig, det in v:
                        acc.violation(sig, {"k": "doc-padding", "vals": [list(c_) for c_ in combo], "video": list(video)}, det)
    elif k == "sami":
        for a in AXES:
            for unit in UNITS:
                for val in VALUES:
                    spec = spec_with(**{a: (val, unit)})
                    for video in VIDEO:
                        v, out = eval_sami(spec, video)
                        acc.case(("sami", a, unit, val, video), True, out, {"writer": "SAMIWriter", "axis": a, "value": val + unit, "video": video})
                        for sig, det in v:
                            acc.violation(sig, {"k": "sami", "spec": spec, "video": video}, det)
    elif k == "vtt":
        for a in ("ox", "oy", "ew", "eh"):
            for unit in UNITS:
                for val in VALUES:
                    spec = spec_with(**{a: (val, unit)})
                    for video in VIDEO:
                        for rel in (True, False):
                            for fit in (False, True):
                                v, out = eval_vtt(spec, video, rel, fit)
                                acc.case(("vtt", a, unit, val, video, rel, fit), True, out, {"writer": "WebVTTWriter", "axis": a, "value": val + unit, "video": video, "relativize": rel, "fit_to_screen": fit})
                                for sig, det in v:
                                    acc.violation(sig + ("/fit" if fit else ""), {"k": "vtt", "spec": spec, "video": video, "rel": rel, "fit": fit}, det)
        # asymmetric paddings (start != end), with and without overflow
        for ox, ew in (("10", "30"), ("35", "80"), ("10", "80.01")):
            for ps, pe in (("5", "0"), ("0", "5"), ("2", "7")):
                spec = spec_with(ox=(ox, "%"), ew=(ew, "%"), ps=(ps, "%"), pe=(pe, "%"))
                for rel in (True, False):
                    for fit in (False, True):
                        v, out = eval_vtt(spec, (640, 360), rel, fit, True)
                        acc.case(("vtt-padded", ox, ew, ps, pe, rel, fit), True, out, {"writer": "WebVTTWriter", "origin_x": ox, "extent_w": ew, "padding_start_end": [ps, pe], "relativize": rel, "fit_to_screen": fit})
                        for sig, det in v:
                            acc.violation(sig + ("/fit" if fit else ""), {"k": "vtt", "spec": spec, "video": (640, 360), "rel": rel, "fit": fit, "padded": True}, det)
        # percentage layouts that overflow, written with relativize on / off and fit on: the edge must be clamped
        for ox, ew in (("35", "80"), ("50", "40"), ("50", "41"), ("10", "80.01")):
            spec = spec_with(ox=(ox, "%"), ew=(ew, "%"))
            for rel in (True, False):
                v, out = eval_vtt(spec, (640, 360), rel, True)
                acc.case(("vtt-fit", ox, ew, rel), True, out, None)
                for sig, det in v:
                    acc.violation(sig + "/fit", {"k": "vtt", "spec": spec, "video": (640, 360), "rel": rel, "fit": True}, det)
    else:
        if d["level"] == "caption":
            from pycaption.geometry import Size, UnitEnum

            for ox in (Size(100, UnitEnum.PIXEL), Size(10, UnitEnum.PERCENT), Size(2, UnitEnum.EM)):
                for oy in (Size(50, UnitEnum.PIXEL), Size(10, UnitEnum.PERCENT), Size(3, UnitEnum.CELL)):
                    if ox.unit == UnitEnum.PERCENT and oy.unit == UnitEnum.PERCENT:
                        continue
                    for ext in ("none", "px", "mixed"):
                        for wr in ("DFXPWriter", "WebVTTWriter"):
                            v, out = eval_fit_absolute(ox, oy, ext, wr)
                            acc.case(("fit-absolute", str(ox), str(oy), ext, wr), True, out, {"origin": [str(ox), str(oy)], "extent": ext, "writer": wr, "relativize": False, "fit_to_screen": True})
                            for sig, det in v:
                                acc.violation(sig, {"k": "fit-absolute", "ox": [ox.value, ox.unit.value], "oy": [oy.value, oy.unit.value], "ext": ext, "writer": wr}, det)
        xs = [str(Fraction(i, 2)) for i in range(170, 182)]
        ys = [str(Fraction(i, 2)) for i in range(180, 192)]
        xs = ["0", "10"] + xs
        ys = ["0", "20"] + ys
        rels = [None, "small", "fit", "over", "big"]
        for x in xs:
            for y in ys:
                for wrel in rels:
                    for hrel in rels if wrel is not None else [None]:
                        if hrel is None and wrel is not None:
                            continue
                        for variant in (None, "absolute-padding-relativize-off") if (x in xs[:4] and y in ys[:4]) else (None,):
                            v, out = eval_fit(x, y, wrel, hrel, d["level"], variant)
                            acc.case(("fit", x, y, wrel, hrel, d["level"], variant), True, out, {"origin": [x, y], "extent_relation": [wrel, hrel], "level": d["level"], "variant": variant})
                            for sig, det in v:
                                acc.violation(sig, {"k": "fit", "x": x, "y": y, "wrel": wrel, "hrel": hrel, "level": d["level"], "variant": variant}, det)
    return acc.result()


def replay(case):
    if case.get("reuse"):
        return shared.replay(reuse_items(), reuse_eval, case["index"])
    k = case["k"]
    if k in ("dfxp", "sami", "vtt"):
        spec = {a: tuple(x) for a, x in case["spec"].items()}
        video = tuple(case["video"])
        if k == "dfxp":
            prior = tuple(case["prior"]) if case.get("prior") else None
            v, _ = eval_dfxp(spec, video, case["fit"], case["level"], prior)
            if prior:
                v = [(s_ + "/set-written-before-for-another-video-size", d_) for s_, d_ in v]
        elif k == "sami":
            v, _ = eval_sami(spec, video)
        else:
            v, _ = eval_vtt(spec, video, case["rel"], case.get("fit", False), bool(case.get("padded")))
            if case.get("fit"):
                v = [(s_ + "/fit", d_) for s_, d_ in v]
    elif k == "fit-absolute":
        from pycaption.geometry import Size, UnitEnum

        v, _ = eval_fit_absolute(Size(case["ox"][0], UnitEnum(case["ox"][1])), Size(case["oy"][0], UnitEnum(case["oy"][1])), case["ext"], case["writer"])
    elif k == "doc-padding":
        v, _ = eval_doc_padding([tuple(x) for x in case["vals"]], tuple(case["video"]))
    else:
        v, _ = eval_fit(case["x"], case["y"], case["wrel"], case["hrel"], case["level"], case.get("variant"))
    return [{"sig": s, "detail": d} for s, d in v]
