"""C14  Each language's captions stay under their language, in document order.

E3 (+ interpreter hash seeds): caption sets with 1-4 languages, each with 1-2 cues on a millisecond lattice - ALL
assignments that are sorted and non-overlapping within a language, hence every relative order (interleaved, coinciding,
disjoint) of cue endpoints across languages - are written to SAMI and DFXP, parsed by the independent parsers, and read
back; multi-language SAMI / DFXP documents are generated directly (class- and lang-attribute languages, div with /
without xml:lang, tt with / without xml:lang); language options (DFXP force=, WebVTT lang=) are exercised. Every shard
is run under several PYTHONHASHSEED values and under PYCAPTION_DEFAULT_LANG unset / set.
"""
import itertools
import os

from mc.acc import Acc
from mc.ref import docs, parsers

ID = "C14"
LEVEL = "exploration"
RULE = (
    "per language all cue lists of 1-2 cues over a lattice of k points (sorted, non-overlapping; k=6 for 2 languages, 4 for 3, 3 for 4 in "
    "the quick tier; 6/5/4 in the thorough tier); full product across languages; x {SAMI, DFXP} write / parse / read-back; generated "
    "documents for the fallback rules; x hash seeds x default-language setting. distinct = distinct (sub-domain, set, seed-independent); "
    "non-trivial = sets with >= 2 languages"
)
ASSUMPTIONS = [
    "hash seeds cannot be enumerated exhaustively: each shard runs under the seeds listed in bounds(); the oracle is absolute (first-appearance order), not a cross-seed comparison",
    "SAMI round trips compare starts and non-final ends (the format does not carry the end of a language's last cue)",
    "language order after a SAMI round trip is the order of first appearance in the written document",
]
TRUSTED = ["mc.ref.parsers (SAMI via html.parser, TTML via expat)", "mc.ref.docs serialisers"]
MANIFEST = {
    "technique": "bounded-exhaustive enumeration of per-language cue lists over a millisecond lattice (all relative orders across languages) x writers/readers x language options x interpreter hash seeds; oracle = per-language (start, end, text) lists and first-appearance order computed by independent parsers",
    "text": "Every multi-language set inside the lattice bound is written, independently parsed and read back; language separation, order of first appearance, option selection, the xml:lang fallback chain and SAMI sync ordering are checked for each, under several hash seeds.",
    "note": "Lattice sizes bound the cue times; hash seeds are sampled from a fixed list (absolute oracle).",
}

LANGS = ["en-US", "fr-FR", "de-DE", "es-ES"]
SEEDS_QUICK = ["0", "1", "2", "3", "11"]
SEEDS_THOROUGH = [str(i) for i in range(0, 16)]


# variants of the caption-set family: None | "short-codes+styles" (two-letter codes that also occur inside the style
# text the set carries: en/center, de/text-decoration, it/italic) | "adjusted" (the set went through
# adjust_caption_timing(offset=0, rate_skew=1) - an identity on the times - before it is written)
VARIANT = None
SHORT = ["en", "de", "it", "es"]


# "prefix-codes": language codes one of which is the beginning of another, the longer one listed first
PREFIXED = ["pt-BR", "pt", "en-US", "en"]


def lang_codes():
    return SHORT if VARIANT == "short-codes+styles" else (PREFIXED if VARIANT == "prefix-codes" else LANGS)


def tag(lang):
    """the word that marks a cue as belonging to a language"""
    return lang.replace("-", "").lower() if VARIANT == "prefix-codes" else lang[:2]


def bounds(tier):
    return {"lattice_points": {2: 6, 3: 4 if tier == "quick" else 5, 4: 3 if tier == "quick" else 4}, "hash_seeds": SEEDS_QUICK if tier == "quick" else SEEDS_THOROUGH, "default_lang_env": [None, "xx"]}


def cue_lists(k):
    pts = [1000 * (i + 1) + 37 * i for i in range(k)]  # not multiples of one another; ms
    pts[-1] += 9000  # the last point has one digit more than the others (millisecond counts of 4 and 5 digits)
    if k >= 5:
        pts[-2] += 9000
    out = []
    for a, b in itertools.combinations(range(k), 2):
        out.append(((pts[a], pts[b]),))
    for a, b, c, d in itertools.combinations(range(k), 4):
        out.append(((pts[a], pts[b]), (pts[c], pts[d])))
    for a, b, c in itertools.combinations(range(k), 3):
        out.append(((pts[a], pts[b]), (pts[b], pts[c])))
    return out


def build(assign):
    """assign: tuple per language of cue tuples (start_ms, end_ms)"""
    from pycaption import Caption, CaptionList, CaptionNode, CaptionSet

    caps = {}
    for li, cues in enumerate(assign):
        lang = lang_codes()[li]
        cl = CaptionList()
        for ci, (s, e) in enumerate(cues):
            cl.append(Caption(s * 1000, e * 1000, [CaptionNode.create_text(f"{tag(lang)}{ci}")]))
        caps[lang] = cl
    cs = CaptionSet(caps)
    if VARIANT == "short-codes+styles":
        cs.set_styles({"narrator": {"text-align": "center", "text-decoration": "underline", "font-style": "italic", "color": "red"}})
    if VARIANT == "adjusted":
        cs.adjust_caption_timing(offset=0, rate_skew=1)
    if VARIANT == "last-language-empty":
        from pycaption import CaptionList as _CL

        cs.set_captions(lang_codes()[len(assign) - 1], _CL())
    # asking for a language the set does not have is a question, not an edit
    cs.get_captions("zz-ZZ")
    cs.get_layout_info("zz-ZZ")
    return cs


def model(assign):
    L = lang_codes()
    m = {L[li]: [(s, e, f"{tag(L[li])}{ci}") for ci, (s, e) in enumerate(cues)] for li, cues in enumerate(assign)}
    if VARIANT == "last-language-empty":
        m[L[len(assign) - 1]] = []
    return m


def real_lists(cs):
    out = {}
    for lang in cs.get_languages():
        out[lang] = [(c.start, c.end, parsers.norm_line(c.get_text())) for c in cs.get_captions(lang)]
    return out


def eval_sami(assign):
    import pycaption

    v = []
    m = model(assign)
    cs = build(assign)
    try:
        doc = pycaption.SAMIWriter().write(cs)
        s = parsers.parse_sami(doc)
    except Exception as e:  # noqa
        return [(f"sami-write/raises:{type(e).__name__}", {"err": str(e)[:200]})], "raises"
    # sync order + paragraphs in the block of their start time
    starts = []
    seen_text = {}
    first_seen = []
    for sy in s["syncs"]:
        if sy["start_raw"] is None or not sy["start_raw"].isdigit():
            v.append(("sami-write/sync-start-not-integer", {"start": sy["start_raw"]}))
            continue
        t = int(sy["start_raw"])
        starts.append(t)
        for para in sy["ps"]:
            cls = para["class"]
            if cls not in first_seen:
                first_seen.append(cls)
            if not parsers.sami_is_blank(para):
                seen_text.setdefault(cls, []).append((t, parsers.norm_line(" ".join(para["lines"]))))
    if starts != sorted(starts):
        v.append(("sami-write/sync-blocks-not-in-time-order", {"starts": starts, "doc": doc[-900:]}))
    for lang, cues in m.items():
        want = [(s_, txt) for s_, e_, txt in cues]
        got = seen_text.get(lang.lower(), seen_text.get(lang, []))
        if got != want:
            v.append(("sami-write/paragraph-not-in-its-language-or-sync", {"lang": lang, "got": got, "want": want, "doc": doc[-900:]}))
    # read back
    try:
        cs2 = pycaption.SAMIReader().read(doc)
    except Exception as e:  # noqa
        v.append((f"sami-read/raises:{type(e).__name__}", {"err": str(e)[:200], "doc": doc[-900:]}))
        return v, "raises"
    got = real_lists(cs2)
    want_order = [c for c in first_seen]
    got_order = [l.lower() for l in cs2.get_languages()]
    if got_order != [c.lower() for c in want_order]:
        v.append(("sami-read/language-order-not-first-appearance", {"got": cs2.get_languages(), "want": want_order, "hashseed": os.environ.get("PYTHONHASHSEED")}))
    low = {k.lower(): val for k, val in got.items()}
    for lang, cues in m.items():
        g = low.get(lang.lower())
        if g is None:
            v.append(("sami-read/language-missing", {"lang": lang, "got": list(got)}))
            continue
        if [(a // 1000, t) for a, b, t in g] != [(s_, txt) for s_, e_, txt in cues]:
            v.append(("sami-read/cue-moved-or-lost", {"lang": lang, "got": g, "want": cues}))
        elif [b // 1000 for a, b, t in g][:-1] != [e_ for s_, e_, txt in cues][:-1]:
            v.append(("sami-read/non-final-end-differs", {"lang": lang, "got": g, "want": cues}))
    return v, tuple(starts)


def eval_dfxp(assign, force=None, writer="DFXPWriter"):
    import pycaption
    from pycaption.dfxp import extras

    v = []
    m = model(assign)
    cs = build(assign)
    langs = list(m)
    kw = {}
    if force and force.startswith("existing"):
        # "existing": the last language; "existing<j>": language number j
        forced = langs[int(force[8:] or -1)]
        kw["force"] = forced
        exp_langs = [forced]
    elif force == "missing":
        kw["force"] = "xx-XX"
        exp_langs = langs
    else:
        exp_langs = langs
    try:
        wcls = getattr(pycaption, writer, None) or getattr(extras, writer)
        doc = wcls().write(cs, **kw)
        t = parsers.parse_ttml(doc)
    except Exception as e:  # noqa
        return [(f"dfxp-write/raises:{type(e).__name__}" + ("" if writer == "DFXPWriter" else "/" + writer), {"err": str(e)[:200]})], "raises"
    if writer != "DFXPWriter":
        # the cue lists of this family have no two captions with identical times: nothing to merge, same divs
        v_, out_ = [], None
        got_divs = [(d["lang"], [(p["start"], p["end"], parsers.norm_line(" ".join(p["lines"]))) for p in d["ps"]]) for d in t["divs"]]
        want_divs = [(l, m[l]) for l in exp_langs]
        if VARIANT == "last-language-empty":
            # a language without captions may or may not get a <div>; if it does, the div holds no cue
            got_divs = [g for g in got_divs if g[1] or g[0] not in m or m[g[0]]]
            want_divs = [w_ for w_ in want_divs if w_[1]]
        if got_divs != want_divs:
            v_.append((f"dfxp-write/divs-differ/force:{force}/{writer}", {"got": got_divs, "want": want_divs}))
        return v_, tuple(l for l, _ in got_divs)
    got_divs = [(d["lang"], [(p["start"], p["end"], parsers.norm_line(" ".join(p["lines"]))) for p in d["ps"]]) for d in t["divs"]]
    want_divs = [(l, m[l]) for l in exp_langs]
    if got_divs != want_divs:
        v.append((f"dfxp-write/divs-differ/force:{force}", {"got": got_divs, "want": want_divs}))
    try:
        cs2 = pycaption.DFXPReader().read(doc)
    except Exception as e:  # noqa
        v.append((f"dfxp-read/raises:{type(e).__name__}", {"err": str(e)[:200]}))
        return v, "raises"
    if cs2.get_languages() != exp_langs:
        v.append(("dfxp-read/language-order", {"got": cs2.get_languages(), "want": exp_langs}))
    got = real_lists(cs2)
    for l in exp_langs:
        if [(a // 1000, b // 1000, t) for a, b, t in got.get(l, [])] != m[l]:
            v.append(("dfxp-read/cue-moved-or-lost", {"lang": l, "got": got.get(l), "want": m[l]}))
    return v, tuple(l for l, _ in got_divs)


def eval_vtt_lang(assign):
    import pycaption

    v = []
    m = model(assign)
    cs = build(assign)
    for lang in list(m) + [None]:
        try:
            doc = pycaption.WebVTTWriter().write(cs, lang=lang) if lang else pycaption.WebVTTWriter().write(cs)
            cues = parsers.parse_vtt(doc)
        except Exception as e:  # noqa
            v.append((f"webvtt-lang/raises:{type(e).__name__}", {"err": str(e)[:200]}))
            continue
        want = m[lang or list(m)[0]]
        got = [(c["start"], c["end"], parsers.norm_line(" ".join(c["lines"]))) for c in cues]
        if got != want:
            v.append(("webvtt-lang/wrong-language-selected", {"lang": lang, "got": got, "want": want}))
    return v, "ok"


def _sami_rewritten(cs, want):
    """the set read from a SAMI document, written by SAMIWriter and read again: same languages, same cue texts"""
    import pycaption

    try:
        cs2 = pycaption.SAMIReader().read(pycaption.SAMIWriter().write(cs))
    except Exception as e:  # noqa
        return [(f"sami-doc/rewritten/raises:{type(e).__name__}", {"err": str(e)[:200]})]
    got = {l: [parsers.norm_line(c.get_text()) for c in cs2.get_captions(l)] for l in cs2.get_languages()}
    if got != want or cs2.get_languages() != list(want):
        return [("sami-doc/rewritten/cue-under-wrong-language-or-lost", {"got": got, "languages": cs2.get_languages(), "want": want})]
    return []


def eval_docs(variant):
    """generated multi-language documents; variant = (kind, params)"""
    import pycaption
    from pycaption.base import DEFAULT_LANGUAGE_CODE

    v = []
    kind = variant[0]
    envdef = os.environ.get("PYCAPTION_DEFAULT_LANG", "und")
    if DEFAULT_LANGUAGE_CODE != envdef:
        v.append(("default-language-not-taken-from-environment", {"got": DEFAULT_LANGUAGE_CODE, "want": envdef}))
    if kind == "dfxp":
        _, tt_lang, div_langs = variant
        divs = []
        want = []
        for i, dl in enumerate(div_langs):
            divs.append((dl, [(f'begin="00:00:0{i + 1}.000" end="00:00:0{i + 2}.000"', f"d{i}")]))
            want.append(dl if dl is not None else (tt_lang if tt_lang is not None else envdef))
        doc = docs.dfxp_doc(divs, tt_lang=tt_lang)
        try:
            cs = pycaption.DFXPReader().read(doc)
        except Exception as e:  # noqa
            return [(f"dfxp-doc/raises:{type(e).__name__}", {"err": str(e)[:200], "doc": doc})], "raises"
        # two divs resolving to the same language collapse into one key: the later wins in a dict; the property
        # speaks about distinct languages, so such variants are not generated (see shards)
        if cs.get_languages() != want:
            v.append(("dfxp-doc/language-fallback", {"tt_lang": tt_lang, "div_langs": div_langs, "got": cs.get_languages(), "want": want}))
        else:
            for i, l in enumerate(want):
                got = [parsers.norm_line(c.get_text()) for c in cs.get_captions(l)]
                if got != [f"d{i}"]:
                    v.append(("dfxp-doc/cue-under-wrong-language", {"lang": l, "got": got}))
        return v, tuple(want)
    elif kind == "sami-class-and-lang":
        # <P class="Speaker" lang="fr">: the class is not a language class; the language comes from the attribute
        class_first = variant[1]
        attr = 'class="Speaker" lang="fr"' if class_first else 'lang="fr" class="Speaker"'
        doc = ("<SAMI><HEAD><STYLE TYPE=\"text/css\"><!--\nP { font-family: Arial; }\n.ENCC { Name: English; lang: en-US; }\n.Speaker { color: red; }\n--></STYLE></HEAD><BODY>\n"
               f"<SYNC start=\"1000\"><P class=\"ENCC\">one</P><P {attr}>un</P></SYNC>\n<SYNC start=\"2000\"><P class=\"ENCC\">two</P><P {attr}>deux</P></SYNC>\n</BODY></SAMI>\n")
        try:
            cs = pycaption.SAMIReader().read(doc)
        except Exception as e:  # noqa
            return [(f"sami-doc/raises:{type(e).__name__}", {"err": str(e)[:200]})], "raises"
        want = {"en-US": ["one", "two"], "fr": ["un", "deux"]}
        got = {l: [parsers.norm_line(c.get_text()) for c in cs.get_captions(l)] for l in cs.get_languages()}
        if got != want or cs.get_languages() != ["en-US", "fr"]:
            v.append(("sami-doc/class-and-lang-attribute/cue-under-wrong-language-or-lost", {"got": got, "languages": cs.get_languages(), "want": want}))
        else:
            v += _sami_rewritten(cs, want)
        return v, tuple(got)
    elif kind == "sami-class-and-id":
        # <P Class=ENCC ID=Source>: the paragraph has a language class and an id that the style sheet styles (the
        # speaker lines of the SAMI specification's own example)
        id_first = variant[1]
        a_en, a_fr = ("ID=Source Class=ENCC", "ID=Source Class=FRCC") if id_first else ("Class=ENCC ID=Source", "Class=FRCC ID=Source")
        doc = ("<SAMI><HEAD><STYLE TYPE=\"text/css\"><!--\nP { font-family: Arial; }\n.ENCC { Name: English; lang: en-US; }\n.FRCC { Name: French; lang: fr-FR; }\n#Source { color: red; }\n--></STYLE></HEAD><BODY>\n"
               f"<SYNC start=1000><P {a_en}>one</P><P {a_fr}>un</P></SYNC>\n<SYNC start=2000><P Class=ENCC>two</P><P Class=FRCC>deux</P></SYNC>\n</BODY></SAMI>\n")
        try:
            cs = pycaption.SAMIReader().read(doc)
        except Exception as e:  # noqa
            return [(f"sami-doc/raises:{type(e).__name__}", {"err": str(e)[:200]})], "raises"
        want = {"en-US": ["one", "two"], "fr-FR": ["un", "deux"]}
        got = {l: [parsers.norm_line(c.get_text()) for c in cs.get_captions(l)] for l in cs.get_languages()}
        if got != want or cs.get_languages() != ["en-US", "fr-FR"]:
            v.append(("sami-doc/class-and-id/cue-under-wrong-language-or-lost", {"got": got, "languages": cs.get_languages(), "want": want}))
        else:
            v += [(k_.replace("sami-doc/", "sami-doc/class-and-id/"), d_) for k_, d_ in _sami_rewritten(cs, want)]
        return v, tuple(got)
    else:
        _, order, use_attr, quote = variant
        # each language has two cues; syncs interleaved according to `order` (a permutation of language indexes
        # giving the order of first appearance)
        langs = [LANGS[i] for i in order]
        syncs = []
        t = 1000
        for rnd in range(2):
            for l in langs:
                syncs.append((t, [(l, f"{l[:2]}{rnd}")]))
                t += 500
        # one shared sync holding all languages
        syncs.append((t, [(l, f"{l[:2]}2") for l in langs]))
        doc = docs.sami_doc(syncs, sorted(langs), use_lang_attr=use_attr, quote=quote)
        try:
            cs = pycaption.SAMIReader().read(doc)
        except Exception as e:  # noqa
            return [(f"sami-doc/raises:{type(e).__name__}", {"err": str(e)[:200], "doc": doc[:600]})], "raises"
        want_langs = [l[:2] if use_attr else l for l in langs]
        if cs.get_languages() != want_langs:
            v.append(("sami-doc/language-order-not-first-appearance", {"got": cs.get_languages(), "want": want_langs, "hashseed": os.environ.get("PYTHONHASHSEED")}))
        for l, wl in zip(langs, want_langs):
            got = [parsers.norm_line(c.get_text()) for c in cs.get_captions(wl)]
            if got != [f"{l[:2]}0", f"{l[:2]}1", f"{l[:2]}2"]:
                v.append(("sami-doc/cue-under-wrong-language", {"lang": wl, "got": got}))
        if not v:
            v += _sami_rewritten(cs, {wl: [f"{l[:2]}0", f"{l[:2]}1", f"{l[:2]}2"] for l, wl in zip(langs, want_langs)})
        return v, tuple(want_langs)


def assignments(nlangs, k):
    cl = cue_lists(k)
    return itertools.product(cl, repeat=nlangs)


def shards(tier, seed):
    b = bounds(tier)
    sh = []
    seeds = b["hash_seeds"]
    for si, hs in enumerate(seeds):
        env = {"PYTHONHASHSEED": hs}
        full = si == 0
        for nl in (2, 3, 4):
            k = b["lattice_points"][nl]
            parts = 8 if nl == 2 else 4
            for p in range(parts):
                # the full product runs under the first seed; the other seeds re-run a stride of it
                sh.append({"k": "sets", "nl": nl, "lat": k, "part": p, "nparts": parts, "stride": 1 if full else 5, "_env": env})
        sh.append({"k": "docs", "_env": env})
        sh.append({"k": "docs", "_env": dict(env, PYCAPTION_DEFAULT_LANG="xx")})
        if full:
            for variant in ("short-codes+styles", "adjusted", "last-language-empty", "prefix-codes"):
                for nl in (2, 3, 4):
                    for p in range(2):
                        sh.append({"k": "sets", "nl": nl, "lat": b["lattice_points"][nl], "part": p, "nparts": 2, "stride": 7 if tier == "quick" else 2, "variant": variant, "_env": env})
    sh.append({"k": "single", "_env": {"PYTHONHASHSEED": seeds[0]}})
    return sh


def run_shard(d):
    acc = Acc()
    global VARIANT
    VARIANT = d.get("variant")
    vx = f"/{VARIANT}" if VARIANT else ""
    if d["k"] == "sets":
        import pycaption

        shared = {"sami": pycaption.SAMIWriter(), "dfxp": pycaption.DFXPWriter()}
        prev_assign = None
        for i, assign in enumerate(assignments(d["nl"], d["lat"])):
            if i % d["nparts"] != d["part"] or (i // d["nparts"]) % d["stride"]:
                continue
            if VARIANT == "last-language-empty":
                # only the writers that merge concurrent captions are judged here (no force: the last language is the empty one)
                for wr in ("SinglePositioningDFXPWriter", "LegacyDFXPWriter"):
                    # force="existing": the language asked for is the one without captions - no other language's cues then
                    for force in (None, "existing"):
                        v, out = eval_dfxp(assign, force, wr)
                        acc.case(("dfxp-" + wr, assign, VARIANT, force), True, out, {"route": wr, "cues_ms_per_language": assign, "variant": VARIANT, "force": force})
                        for kind, det in v:
                            acc.violation(f"C14/{kind}/langs{d['nl']}{vx}", {"k": "dfxp", "force": force, "writer": wr, "assign": assign, "variant": VARIANT, "_env": d["_env"]}, det)
                continue
            if VARIANT == "prefix-codes":
                for wr in ("DFXPWriter", "SinglePositioningDFXPWriter", "LegacyDFXPWriter"):
                    for j in range(d["nl"]):
                        v, out = eval_dfxp(assign, f"existing{j}", wr)
                        acc.case(("dfxp-" + wr, assign, VARIANT, j), True, out, {"route": wr, "cues_ms_per_language": assign, "variant": VARIANT, "force": lang_codes()[j]})
                        for kind, det in v:
                            acc.violation(f"C14/{kind}/langs{d['nl']}{vx}", {"k": "dfxp", "force": f"existing{j}", "writer": wr, "assign": assign, "variant": VARIANT, "_env": d["_env"]}, det)
                v, out = eval_sami(assign)
                acc.case(("sami", assign, VARIANT), True, out, {"route": "sami", "cues_ms_per_language": assign, "variant": VARIANT})
                for kind, det in v:
                    acc.violation(f"C14/{kind}/langs{d['nl']}{vx}", {"k": "sami", "assign": assign, "variant": VARIANT, "_env": d["_env"]}, det)
                continue
            # the same writer object used for one set after the other must write what a fresh writer writes
            for name, cls in (("sami", pycaption.SAMIWriter), ("dfxp", pycaption.DFXPWriter)):
                try:
                    a = shared[name].write(build(assign))
                    b = cls().write(build(assign))
                except Exception as e:  # noqa
                    a, b = "raises", "raises:" + type(e).__name__
                acc.case(("reuse", name, assign, VARIANT), True, None, None)
                if a != b:
                    acc.violation(f"C14/{name}-write/reused-writer-output-differs/langs{d['nl']}{vx}", {"k": "reuse-" + name, "assign": assign, "prev": prev_assign, "variant": VARIANT, "_env": d["_env"]}, {"reused": a[-500:], "fresh": b[-500:]})
                    shared[name] = cls()
            prev_assign = assign
            for fn, name in ((eval_sami, "sami"), (eval_dfxp, "dfxp")):
                v, out = fn(assign)
                acc.case((name, assign, VARIANT), True, out, {"route": name, "cues_ms_per_language": assign, "variant": VARIANT, "hashseed": os.environ.get("PYTHONHASHSEED")})
                for kind, det in v:
                    acc.violation(f"C14/{kind}/langs{d['nl']}{vx}", {"k": name, "assign": assign, "variant": VARIANT, "_env": d["_env"]}, det)
            if (i // d["nparts"]) % 3 == 0:
                for wr in ("SinglePositioningDFXPWriter", "LegacyDFXPWriter"):
                    v, out = eval_dfxp(assign, None if (i // d["nparts"]) % 2 else "existing", wr)
                    acc.case(("dfxp-" + wr, assign, VARIANT), True, out, None)
                    for kind, det in v:
                        acc.violation(f"C14/{kind}/langs{d['nl']}{vx}", {"k": "dfxp", "force": None if (i // d["nparts"]) % 2 else "existing", "writer": wr, "assign": assign, "variant": VARIANT, "_env": d["_env"]}, det)
            if (i // d["nparts"]) % 7 == 0:
                for force in ("existing", "missing"):
                    v, out = eval_dfxp(assign, force)
                    acc.case(("dfxp-force", force, assign, VARIANT), True, out, None)
                    for kind, det in v:
                        acc.violation(f"C14/{kind}/langs{d['nl']}{vx}", {"k": "dfxp", "force": force, "assign": assign, "variant": VARIANT, "_env": d["_env"]}, det)
                v, out = eval_vtt_lang(assign)
                acc.case(("vtt-lang", assign, VARIANT), True, out, None)
                for kind, det in v:
                    acc.violation(f"C14/{kind}/langs{d['nl']}{vx}", {"k": "vtt", "assign": assign, "variant": VARIANT, "_env": d["_env"]}, det)
    elif d["k"] == "docs":
        variants = []
        for tt_lang in (None, "en", "pt-BR"):
            for div_langs in ([None], ["fr"], ["fr", "de"], ["fr", None], [None, "de"], ["es", "fr", "de"], ["de", None, "fr"]):
                resolved = [dl if dl is not None else (tt_lang or "_default") for dl in div_langs]
                if len(set(resolved)) != len(resolved):
                    continue
                variants.append(("dfxp", tt_lang, div_langs))
        for n in (2, 3, 4):
            for order in itertools.permutations(range(n)):
                for use_attr in (False, True):
                    variants.append(("sami", order, use_attr, '"'))
        variants.append(("sami-class-and-lang", True))
        variants.append(("sami-class-and-lang", False))
        variants.append(("sami-class-and-id", True))
        variants.append(("sami-class-and-id", False))
        for var in variants:
            v, out = eval_docs(var)
            acc.case(("doc", var, os.environ.get("PYCAPTION_DEFAULT_LANG")), True, out, {"document_variant": var, "hashseed": os.environ.get("PYTHONHASHSEED"), "PYCAPTION_DEFAULT_LANG": os.environ.get("PYCAPTION_DEFAULT_LANG")})
            for kind, det in v:
                acc.violation(f"C14/{kind}", {"k": "doc", "var": var, "_env": d["_env"]}, det)
    else:
        for assign in assignments(1, 6):
            for fn, name in ((eval_sami, "sami"), (eval_dfxp, "dfxp")):
                v, out = fn(assign)
                acc.case((name, assign), False, out, None)
                for kind, det in v:
                    acc.violation(f"C14/{kind}/langs1", {"k": name, "assign": assign, "_env": d["_env"]}, det)
    return acc.result()


def _t(x):
    return tuple(_t(i) for i in x) if isinstance(x, list) else x


def replay(case):
    """Hash-seed dependent cases are replayed in a subprocess with the recorded environment."""
    env = case.get("_env") or {}
    if env and any(os.environ.get(k) != v for k, v in env.items()):
        import json
        import subprocess
        import sys

        e = dict(os.environ)
        e.update(env)
        code = "import sys,json; sys.path.insert(0,%r); from mc.checks import c14; print(json.dumps(c14.replay(json.loads(sys.argv[1])), default=str))" % os.path.dirname(os.path.dirname(os.path.dirname(os.path.abspath(__file__))))
        r = subprocess.run([sys.executable, "-B", "-W", "ignore", "-c", code, json.dumps(case)], capture_output=True, text=True, env=e)
        try:
            return json.loads(r.stdout.strip().splitlines()[-1])
        except Exception:  # noqa
            return [{"sig": "_replay-error", "detail": (r.stdout + r.stderr)[-500:]}]
    k = case["k"]
    global VARIANT
    VARIANT = case.get("variant")
    vx = f"/{VARIANT}" if VARIANT else ""
    if k.startswith("reuse-"):
        import pycaption

        cls = pycaption.SAMIWriter if k == "reuse-sami" else pycaption.DFXPWriter
        w = cls()
        if case.get("prev"):
            w.write(build(_t(case["prev"])))
        assign = _t(case["assign"])
        a, b = w.write(build(assign)), cls().write(build(assign))
        return [{"sig": f"C14/{k[6:]}-write/reused-writer-output-differs/langs{len(assign)}{vx}", "detail": None}] if a != b else []
    if k == "doc":
        v, _ = eval_docs(_t(case["var"]))
        return [{"sig": f"C14/{kind}", "detail": det} for kind, det in v]
    assign = _t(case["assign"])
    nl = len(assign)
    if k == "sami":
        v, _ = eval_sami(assign)
    elif k == "dfxp":
        v, _ = eval_dfxp(assign, case.get("force"), case.get("writer", "DFXPWriter"))
    else:
        v, _ = eval_vtt_lang(assign)
    return [{"sig": f"C14/{kind}/langs{nl}{vx}", "detail": det} for kind, det in v]
