#!/venv/bin/python
"""Runs the checks against every independently seeded change under /verif/seeded/<name>/ and writes
/verif/seeded/README.md (which check catches which change).

For each seeded change: apply patch.diff to /repo (git apply), run the pinned test suite and the demonstration,
run the quick check of the property it targets (and, with --all, every quick check), then revert /repo
(git checkout -- .). /repo must be clean when this starts. Nothing is ever committed to /repo.

usage: tools/seeded.py [--all] [--tier=thorough] [--repo=<scratch worktree>] [--readme=<file>] [name ...]
With --repo the patches are applied to that scratch checkout instead of /repo and the checks are pointed at it
(VERIF_REPO / PYTHONPATH), so that /repo itself stays untouched; README.md is rewritten by a run over all changes.
"""
import glob
import json
import os
import subprocess
import sys
import time

VERIF = os.path.dirname(os.path.dirname(os.path.abspath(__file__)))
REPO = "/repo"


def sh(cmd, cwd=None, env=None, timeout=3600):
    r = subprocess.run(cmd, shell=True, cwd=cwd, capture_output=True, text=True, env=env, timeout=timeout)
    return r.returncode, r.stdout + r.stderr


def main():
    args = [a for a in sys.argv[1:] if not a.startswith("--")]
    run_all = "--all" in sys.argv
    tier = "thorough" if "--tier=thorough" in sys.argv else "quick"
    global REPO
    for a in sys.argv[1:]:
        if a.startswith("--repo="):
            REPO = a.split("=", 1)[1]
    scratch = REPO != "/repo"
    cenv = dict(os.environ, VERIF_REPO=REPO, PYTHONPATH=REPO, VERIF_EVIDENCE_DIR="/root/scratch/evidence_of_seeded_runs") if scratch else dict(os.environ, VERIF_EVIDENCE_DIR="/root/scratch/evidence_of_seeded_runs")
    rc, out = sh("git status --porcelain -- pycaption", cwd=REPO)
    if out.strip():
        print("REFUSING: /repo has uncommitted changes")
        return 2
    names = args or sorted(os.path.basename(os.path.dirname(p)) for p in glob.glob(os.path.join(VERIF, "seeded", "*", "meta.json")))
    props = [json.loads(l)["id"] for l in open(os.path.join(VERIF, "properties.jsonl"))]
    rows = []
    for name in names:
        d = os.path.join(VERIF, "seeded", name)
        meta = json.load(open(os.path.join(d, "meta.json")))
        patch = os.path.join(d, "patch.diff")
        rc, out = sh(f"git apply --check {patch}", cwd=REPO)
        if rc:
            rows.append((name, meta, "patch does not apply: " + out.strip()[:100], {}, None, None))
            continue
        sh(f"git apply {patch}", cwd=REPO)
        try:
            t0 = time.time()
            rc_t, out_t = sh("/venv/bin/python -B -m pytest -q -p no:cacheprovider --continue-on-collection-errors 2>&1 | tail -1", cwd=REPO)
            tests = out_t.strip().splitlines()[-1] if out_t.strip() else "?"
            demo = None
            if os.path.exists(os.path.join(d, "demo.py")):
                env = dict(os.environ, PYTHONPATH=REPO)
                rc_d, _ = sh(f"/venv/bin/python -B -W ignore {os.path.join(d, 'demo.py')}", cwd=REPO, env=env)
                demo = rc_d
            caught = {}
            targets = props if run_all else [meta["property"]] + meta.get("also_run", [])
            for pid in targets:
                rc_c, out_c = sh(f"./check {pid} --tier {tier}", cwd=VERIF, env=cenv)
                sigs = [l.split("signature:")[1].strip() for l in out_c.splitlines() if l.strip().startswith("signature:")]
                caught[pid] = {"rc": rc_c, "violation_classes": len([l for l in out_c.splitlines() if l.startswith("VIOLATION")]), "first_signature": sigs[0] if sigs else None}
            rows.append((name, meta, tests, caught, demo, round(time.time() - t0)))
        finally:
            sh("git checkout -- .", cwd=REPO)
        print(name, tests, {k: v["rc"] for k, v in caught.items()}, "demo rc", demo, flush=True)
    # demo on the pristine tree
    lines = [
        "# Independently seeded property-breaking changes",
        "",
        "Produced by fresh sub-agents that saw only the property text and a scratch worktree of /repo; confirmed by me",
        "(pinned tests pass with the change; the demonstration fails with it and passes without). None of them is ever",
        "committed to /repo. Regenerate this table with `tools/seeded.py` (applies each patch, runs the checks, reverts).",
        "",
        f"Tier used for this table: {tier}. Patches were applied to {'a scratch worktree of /repo at the same HEAD (' + REPO + ')' if scratch else '/repo itself'}.",
        "",
        "| seeded change | property | what it needs to manifest | pinned tests with the change | demo exit (with change) | caught by (exit 1 = VIOLATION) | first signature |",
        "|---|---|---|---|---|---|---|",
    ]
    for name, meta, tests, caught, demo, secs in rows:
        c = ", ".join(f"{k}: exit {v['rc']} ({v['violation_classes']} classes)" for k, v in caught.items())
        sig = next((v["first_signature"] for v in caught.values() if v["first_signature"]), "")
        lines.append(f"| {name} | {meta['property']} | {meta.get('needs', '')} | {tests} | {demo} | {c} | `{sig}` |")
    readme = [a.split("=", 1)[1] for a in sys.argv[1:] if a.startswith("--readme=")]
    if readme:
        # --readme=<file>: write the table for the given names to that file (tools/seeded_readme.py stitches such parts)
        open(readme[0], "w").write("\n".join(lines) + "\n")
    elif not args:
        open(os.path.join(VERIF, "seeded", "README.md"), "w").write("\n".join(lines) + "\n")
    missed = [r[0] for r in rows if r[3] and not any(v["rc"] == 1 for v in r[3].values())]
    print("missed:", missed)
    return 0


if __name__ == "__main__":
    sys.exit(main())
