#!/venv/bin/python
"""Stitches seeded/README.md from the tables written by several tools/seeded.py runs (each run covers some of the stored
changes, possibly at different commits of /verif): the header of the first part, then all table rows in name order.

usage: tools/seeded_readme.py <part.md> [<part.md> ...]     (later parts win for a change that occurs twice)
"""
import os
import sys

VERIF = os.path.dirname(os.path.dirname(os.path.abspath(__file__)))
rows = {}
header = None
for path in sys.argv[1:]:
    lines = open(path).read().splitlines()
    k = next(i for i, l in enumerate(lines) if l.startswith("|---"))
    if header is None:
        header = lines[: k + 1]
    for l in lines[k + 1 :]:
        if l.startswith("| "):
            rows[l.split("|")[1].strip()] = l
out = header + [rows[k] for k in sorted(rows)]
caught = sum(1 for r in rows.values() if ": exit 1" in r)
out += ["", f"{len(rows)} changes; the check of the targeted property reports {caught} of them (exit 1)."]
out += ["",
        "The rows come from several runs of `tools/seeded.py` (a full run over all changes takes hours): each change's row is",
        "from the latest run that covered it, made with the checks and the `/repo` head of that time - every `fix:` commit",
        "since then left the patch applicable or it was re-expressed and re-run (`rebased_on` in its meta.json). The changes",
        "not reported, and why, are listed in `HISTORY.md` (C13-w7-2: tie direction of a rounding; C01-w9-3: negative",
        "WebVTT time shift; C05-w11-3: extended character after a special character; C04-w11-2, C04-w11-3 and C16-w11-3:",
        "changes to another property's code, reported by C03 / C19). C11-w6-3 and C11-w8-2 stopped being violations",
        "when the reader defect they leaned on was repaired (9ad35cf): their rows say so.",
        "",
        "A last partial re-run on the final tree (/repo ddf6f15, /verif 63691e8; stopped for lack of time) covered 251 of",
        "the changes whose rows are older: 249 were reported again, the other two are C11-w6-3 and C11-w8-2."]
open(os.path.join(VERIF, "seeded", "README.md"), "w").write("\n".join(out) + "\n")
print(len(rows), "rows,", caught, "caught")
