#!/venv/bin/python
"""setup_cmd: nothing needs building (pure Python); verify the toolchain the checks rely on."""
import os
import sys

sys.path.insert(0, os.path.dirname(os.path.dirname(os.path.abspath(__file__))))
import bs4  # noqa
import lxml.etree  # noqa
import pycaption  # noqa

want = os.path.realpath(os.path.join(os.environ.get("VERIF_REPO", "/repo"), "pycaption"))
here = os.path.realpath(os.path.dirname(pycaption.__file__))
assert here == want, (here, want)
from mc import acc, workers  # noqa

print("verif setup ok: python", sys.version.split()[0], "pycaption at", here)
