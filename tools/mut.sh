#!/bin/sh
# usage: mut.sh <check-id> <file> <python-expr-old> <new>   (applies a textual replacement in /repo, runs tests + check, reverts)
ID=$1; F=$2; OLD=$3; NEW=$4
cd /repo || exit 9
[ -z "$(git status --porcelain -- pycaption)" ] || { echo "REFUSING: /repo has uncommitted changes"; exit 9; }
/venv/bin/python - "$F" "$OLD" "$NEW" <<'PY'
import sys
f,old,new=sys.argv[1:4]
s=open(f).read()
assert old in s, "pattern not found"
open(f,'w').write(s.replace(old,new,1))
PY
[ $? -eq 0 ] || { git checkout -- .; exit 9; }
T=$(/venv/bin/python -B -m pytest -q -p no:cacheprovider --continue-on-collection-errors 2>&1 | tail -1)
cd /verif && R=$(./check $ID --tier quick 2>&1 | grep -c '^VIOLATION')
cd /repo && git checkout -- .
echo "MUT[$ID] $F: '$OLD' -> '$NEW' | tests: $T | violation-classes: $R"
