#!/venv/bin/python
"""Confirms one independently produced change in its scratch worktree and, if everything holds, stores it under
/verif/seeded/<name>/ (patch.diff, demo.py, notes.md, meta.json).

usage: tools/confirm_seed.py <worktree> <index> <property> <name> "<what it needs to manifest>"

Confirmed = (1) on the pristine worktree the demonstration exits 0, (2) the patch applies, (3) with the patch the
pinned test suite gives exactly the baseline (217 passed, 2 collection errors), (4) with the patch the
demonstration exits non-zero, (5) the worktree is restored.
"""
import json
import os
import shutil
import subprocess
import sys

VERIF = os.path.dirname(os.path.dirname(os.path.abspath(__file__)))


def sh(cmd, cwd, env=None):
    r = subprocess.run(cmd, shell=True, cwd=cwd, capture_output=True, text=True, env=env)
    return r.returncode, (r.stdout + r.stderr)


def main():
    wt, idx, prop, name, needs = sys.argv[1:6]
    out = os.path.join(wt, "_out")
    patch = os.path.join(out, f"patch{idx}.diff")
    demo = os.path.join(out, f"demo{idx}.py")
    notes = os.path.join(out, f"notes{idx}.md")
    env = dict(os.environ, PYTHONPATH=wt)
    ran = []
    sh("git checkout -- pycaption", wt)
    rc0, o0 = sh(f"/venv/bin/python -B -W ignore {demo}", wt, env)
    ran.append(f"pristine: demo exit {rc0}")
    rc, o = sh(f"git apply --check {patch} && git apply {patch}", wt)
    if rc:
        print("patch does not apply:", o[:300])
        return 1
    try:
        rct, ot = sh("/venv/bin/python -B -m pytest -q -p no:cacheprovider --continue-on-collection-errors 2>&1 | tail -1", wt)
        tests = ot.strip().splitlines()[-1]
        ran.append(f"patched: pytest -> {tests}")
        rc1, o1 = sh(f"/venv/bin/python -B -W ignore {demo}", wt, env)
        ran.append(f"patched: demo exit {rc1}")
        rcf, of = sh("git diff --stat -- pycaption | tail -1", wt)
    finally:
        sh("git checkout -- pycaption", wt)
    ok = rc0 == 0 and rc1 != 0 and tests.startswith("217 passed") and "2 errors" in tests and "failed" not in tests
    print("\n".join(ran))
    print("demo output with the change:", o1.strip()[-400:])
    if not ok:
        print("NOT CONFIRMED")
        return 1
    d = os.path.join(VERIF, "seeded", name)
    os.makedirs(d, exist_ok=True)
    shutil.copy(patch, os.path.join(d, "patch.diff"))
    shutil.copy(demo, os.path.join(d, "demo.py"))
    if os.path.exists(notes):
        shutil.copy(notes, os.path.join(d, "notes.md"))
    json.dump(
        {
            "property": prop,
            "needs": needs,
            "origin": "fresh sub-agent given only the property text and a scratch worktree of /repo (nothing from /verif)",
            "files_changed": of.strip(),
            "what_i_ran": ran,
            "demo_output_with_change": o1.strip()[-600:],
            "confirmed_on_repo_commit": sh("git rev-parse --short HEAD", wt)[1].strip(),
        },
        open(os.path.join(d, "meta.json"), "w"),
        indent=1,
    )
    print("CONFIRMED ->", d)
    return 0


if __name__ == "__main__":
    sys.exit(main())
