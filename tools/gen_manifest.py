#!/venv/bin/python
"""Regenerates /verif/MANIFEST.json from the check modules that exist (mc/checks/cNN.py with a
MANIFEST dict) and validates it against the schema when jsonschema is importable.
Properties without a module (or with CLAIM = False) are listed under not_applicable."""
import importlib
import json
import os
import sys

VERIF = os.path.dirname(os.path.dirname(os.path.abspath(__file__)))
sys.path.insert(0, VERIF)

props = [json.loads(l) for l in open(os.path.join(VERIF, "properties.jsonl"))]
checks, na = [], []
for p in props:
    pid = p["id"]
    path = os.path.join(VERIF, "mc", "checks", pid.lower() + ".py")
    mod = None
    if os.path.exists(path):
        mod = importlib.import_module("mc.checks." + pid.lower())
    if mod is None or not getattr(mod, "CLAIM", True) or not hasattr(mod, "MANIFEST"):
        na.append({"property_id": pid, "reason": getattr(mod, "NOT_CLAIMED_REASON", "check not built yet in this round (planned in DESIGN.md section 6)")})
        continue
    m = mod.MANIFEST
    checks.append(
        {
            "property_id": pid,
            "quick_cmd": f"./check {pid} --tier quick",
            "thorough_cmd": f"./check {pid} --tier thorough",
            "evidence_file": f"/verif/evidence/{pid}.json",
            "replay_cmd_template": f"./check {pid} --replay {{path}}",
            "engine": m.get("engine", "mc-explore"),
            "level_claimed": {"category": mod.LEVEL, "text": m["text"], "design_ref": m.get("design_ref", f"DESIGN.md section 6, {pid}")},
            "level_note": m["note"],
            "technique": m["technique"],
        }
    )

manifest = {
    "version": 1,
    "setup_cmd": "/venv/bin/python -B /verif/tools/selftest.py",
    "hooks": {
        "guard": "PYCAPTION_VERIF",
        "enable": "no source hooks are needed: every seam used is reachable by ordinary attribute access (DESIGN.md 2.4)",
        "baseline_off_cmd": "cd /repo && /venv/bin/python -m pytest -ra -q -p no:cacheprovider --timeout=900 --continue-on-collection-errors",
        "source_commits": [],
        "add_only": True,
    },
    "engines": [
        {
            "name": "mc-explore",
            "path": "/verif/mc",
            "serves_properties": [c["property_id"] for c in checks],
            "kind_free_text": "hand-written bounded-exhaustive explorer for Python (explicit-state BFS over the real transition functions, "
            "exhaustive operation-history exploration, bounded-exhaustive input enumeration against independent reference models), 16 spawned worker processes",
        }
    ],
    "checks": checks,
    "not_applicable": na,
    "notes": "All checks run the real pycaption from /repo's working tree (editable install; asserted at start-up). "
    "Known genuine defects that were not repaired are listed in /verif/known_findings.json; repaired ones are 'fixed' entries there.",
}
out = os.path.join(VERIF, "MANIFEST.json")
json.dump(manifest, open(out, "w"), indent=1)
try:
    import jsonschema

    jsonschema.validate(manifest, json.load(open("/root/.vp/MANIFEST.schema.json")))
    print("MANIFEST.json valid;", len(checks), "checks,", len(na), "not claimed")
except ImportError:
    print("MANIFEST.json written (jsonschema not importable here);", len(checks), "checks")
