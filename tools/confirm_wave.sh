#!/bin/sh
# usage: tools/confirm_wave.sh <wave> <ID>...     e.g. tools/confirm_wave.sh w4 C04 C05
# confirms what a seeding agent left in /tmp/wt_<ID>/_out (patch<i>.diff, demo<i>.py, notes<i>.md) and stores the
# confirmed changes as /verif/seeded/<ID>-<wave>-<i>/
W=$1; shift
cd "$(dirname "$0")/.."
for ID in "$@"; do
  for i in 1 2 3; do
    [ -f /tmp/wt_$ID/_out/patch$i.diff ] || continue
    NEEDS=$(grep -v '^\s*$' /tmp/wt_$ID/_out/notes$i.md 2>/dev/null | head -3 | tr '\n' ' ' | cut -c1-300 | tr '"' "'")
    /venv/bin/python tools/confirm_seed.py /tmp/wt_$ID $i $ID $ID-$W-$i "$NEEDS" | tail -1
  done
done
