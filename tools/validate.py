#!/usr/bin/env python3-vt
"""Validates MANIFEST.json and every evidence file against the schemas (run with python3-vt)."""
import glob
import json
import os
import sys

import jsonschema

V = os.path.dirname(os.path.dirname(os.path.abspath(__file__)))
ok = True
m = json.load(open(os.path.join(V, "MANIFEST.json")))
jsonschema.validate(m, json.load(open("/root/.vp/MANIFEST.schema.json")))
print("MANIFEST ok:", len(m["checks"]), "checks;", len(m.get("not_applicable", [])), "not claimed")
es = json.load(open("/root/.vp/EVIDENCE.schema.json"))
for f in sorted(glob.glob(os.path.join(V, "evidence", "*.json"))):
    try:
        jsonschema.validate(json.load(open(f)), es)
        print("evidence ok:", os.path.basename(f))
    except Exception as e:  # noqa
        ok = False
        print("EVIDENCE INVALID", f, str(e)[:300])
ids = {c["property_id"] for c in m["checks"]} | {c["property_id"] for c in m.get("not_applicable", [])}
props = {json.loads(l)["id"] for l in open(os.path.join(V, "properties.jsonl"))}
if ids != props:
    ok = False
    print("property coverage mismatch", ids ^ props)
sys.exit(0 if ok else 1)
