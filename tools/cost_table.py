#!/venv/bin/python
"""Prints the table of DESIGN.md section 10 from the summary lines of a quick and a thorough pass.

usage: tools/cost_table.py <quick.log> <thorough.log>
"""
import json
import os
import re
import sys

VERIF = os.path.dirname(os.path.dirname(os.path.abspath(__file__)))
LINE = re.compile(r"^\[(C\d\d)\] tier=(\w+) seed=\d+ evaluations=(\d+) distinct_nontrivial=\d+ states=(\d+) transitions=(\d+) outcomes=\d+ exhaustive=(\w+) wall=([\d.]+)s")


def read(path):
    out = {}
    for ln in open(path):
        m = LINE.match(ln)
        if m:
            out[m.group(1)] = m.groups()[2:]
    return out


def fmt(n):
    return f"{int(n):,}".replace(",", " ")


def main():
    q, t = read(sys.argv[1]), read(sys.argv[2])
    levels = {p["property_id"]: p["level_claimed"]["category"] for p in json.load(open(os.path.join(VERIF, "MANIFEST.json")))["checks"]}
    print("| property | level | quick: evaluations / model states / transitions / wall | thorough: evaluations / model states / transitions / wall |")
    print("|---|---|---|---|")
    for pid in sorted(q):
        def cell(x):
            if x is None:
                return "-"
            ev, st, tr, ex, wall = x
            return f"{fmt(ev)} / {fmt(st) if int(st) else '-'} / {fmt(tr) if int(tr) else '-'} / {float(wall):.0f} s" + ("" if ex == "True" else " (capped)")
        print(f"| {pid} | {levels.get(pid, '?')} | {cell(q.get(pid))} | {cell(t.get(pid))} |")


main()
