#!/venv/bin/python
"""Prints the brief given to a fresh sub-agent that seeds property-breaking changes (the wording used in wave 3).

usage: tools/seed_prompt.py C10
The agent works in the scratch worktree /tmp/wt_C10 (git -C /repo worktree add --detach /tmp/wt_C10 HEAD) and is given
only the property text printed here - nothing from /verif. What it delivers is confirmed with tools/confirm_seed.py
(pinned tests pass with the change, demonstration fails with it and passes without) and the worktree is removed.
"""
import json
import os
import sys

pid = sys.argv[1]
extra = ""
# optional second argument "w11": API-level histories and combinations of options / legal-but-exotic inputs
if len(sys.argv) > 2 and sys.argv[2] == "w11":
    extra = ("This time think about uses of the library that the property covers but that a conversion of a typical file never exercises: the "
             "CaptionConverter front end (read / write with keyword arguments); a caption set that is edited through its API after reading and before "
             "writing (set_captions, set_layout_info, set_styles / add_style, adjust_caption_timing, merge_concurrent_captions, CaptionList slicing and "
             "concatenation, nodes appended to a caption); two or three options combined (reader lang with offset or time shift; relativize off with fit on "
             "and only one video dimension; force with write_inline_positioning; positioning given to the single-position writer); inputs that are legal "
             "but exotic (byte order mark, CR LF or CR line ends, tabs, trailing blanks, upper-case tags and attributes, empty or zero-length cues, a cue at "
             "time zero, times beyond 24 hours, a document with one cue, a language with one caption, very long lines, characters outside the basic "
             "multilingual plane). A change may also sit in code that only such a use reaches. Two cooperating edits in different functions are welcome. "
             "Avoid what earlier rounds did to death: state left on a reused reader / writer object, memo caches, set() ordering, the local lists of "
             "merge_concurrent_captions, Padding.__eq__ / Layout.__eq__, the regular expression of Size.from_string, an untagged DFXP div inheriting the "
             "previous div's language, `>` versus `>=` on the 32-column limit, zero treated as missing, is_empty(). "
             "In addition to the three changes: while you read the code, note anything in the UNMODIFIED library that already seems to violate the property "
             "above for some input (a pre-existing defect); do not use it in your changes, just describe it (input, what happens, what should happen) at the end "
             "of your final message under the heading 'Pre-existing suspects'. ")
# optional second argument "w10": secondary grammar features, inheritance of attributes, plumbing of options
if len(sys.argv) > 2 and sys.argv[2] == "w10":
    extra = ("This time look at the secondary features of the formats and at plumbing, wherever a slip there breaks the property above: in DFXP the inheritance "
             "of attributes and references (a style that refers to another style, region / style / tts: attributes on body, div, p and span and which one wins, "
             "xml:space, nested spans, br variants); in SAMI the style sheet (several classes, id selectors, comments, inline style attributes, case of tags and "
             "attributes, unclosed tags); in WebVTT cue identifiers, NOTE / STYLE / REGION blocks, multi-line payloads and the parsing of cue settings; in SCC "
             "tab offsets, channel bytes, special and extended characters that replace the previous character, codes split over lines, the translation tables the "
             "writer uses; in the writers their options and how they reach the code that needs them (constructor versus write(), keyword arguments forwarded "
             "by CaptionConverter, video size, positioning, force, defaults kept on the class), line wrapping and escaping helpers, and how layout information is "
             "inherited from set to language to caption to node. Two cooperating edits in different functions that each look harmless are welcome. Avoid what has "
             "been done to death: state left on a reused reader / writer object, a memo with a coarse key, set() ordering, hoisting the local lists of "
             "merge_concurrent_captions out of its loop, Padding.__eq__ / Layout.__eq__ comparing the wrong field, the regular expression of Size.from_string, "
             "`>` turned into `>=` on the 32-column limit, zero treated as missing, is_empty() true when one language is empty. ")
# optional second argument "w9": the less travelled shared machinery
if len(sys.argv) > 2 and sys.argv[2] == "w9":
    extra = ("This time concentrate on the less travelled shared machinery that the property nevertheless depends on: the CaptionSet / CaptionList / "
             "Caption / CaptionNode API in pycaption/base.py (constructors and their defaults, set_captions / get_captions, layout and style accessors, "
             "CaptionList slicing / addition / multiplication, the node factory functions, get_text / get_text_nodes / is_empty, format_start / format_end), "
             "the value objects and helpers of pycaption/geometry.py (inherit_from, is_relative, is_valid, __bool__, __repr__, to_xml_attribute, "
             "from_xml_attribute, the enum conversions), pycaption/utils.py, the exception classes, the constants tables of the SCC package, and the "
             "writer variants in pycaption/dfxp/extras.py - wherever a slip there breaks the property above for some inputs. At most one of the three changes "
             "may sit in the reader / writer module that implements the property most directly. Avoid the over-familiar patterns: state left on a reused "
             "reader / writer object, a memo with a coarse key, a set() making an order hash-dependent, grouping by key instead of by run, `>` turned into "
             "`>=` on the 32-column limit, comparing times after rounding to milliseconds, zero treated as missing, is_empty() true when one language is empty. ")
# optional second argument "w8": classic operator-level slips hidden in tidy-ups
if len(sys.argv) > 2 and sys.argv[2] == "w8":
    extra = ("Make the changes look like tidy-ups or micro-refactorings that hide a classic operator-level slip: a changed default parameter value; iteration "
             "details (enumerate start, slice bounds, reversed / sorted where order or stability matters, zip truncation); copy versus reference of a value object or "
             "list; string methods (strip vs rstrip / lstrip, split vs splitlines vs partition, lower / upper / casefold, startswith vs in); regular-expression "
             "details (IGNORECASE / MULTILINE / DOTALL flags, greedy vs lazy quantifiers, anchors, character classes, optional groups); integer division and modulo, "
             "min / max / abs / round; boolean operator precedence and De Morgan slips; `is` vs `==`, truthiness of 0 / '' / empty containers; dict.get defaults and "
             "setdefault. Avoid the over-familiar patterns: state left on a reused reader / writer object, a memo with a coarse key, a set() making an order "
             "hash-dependent, grouping by key instead of by run, `>` turned into `>=` on the 32-column limit, comparing times after rounding to milliseconds, a run or "
             "begin time of zero treated as missing. ")
# optional second argument "w7": legal-but-rare spellings, numeric precision, exception paths
if len(sys.argv) > 2 and sys.argv[2] == "w7":
    extra = ("Look in particular for: spellings and structures that the formats allow but sample files rarely use (upper / lower case of tags and attributes, "
             "quoting styles, namespace prefixes, comments, CDATA sections, byte-order marks, tabs, trailing blanks, unusual line ends, leading zeros or missing "
             "leading zeros, very large or very small numbers, zero or equal start and end, unsorted input, empty containers); numeric precision and rounding (int vs "
             "float, truncation vs rounding, order of multiplication and division, accumulated error); and the exception path (valid input rejected, wrong exception "
             "type, exception swallowed). Avoid the over-familiar patterns: state left on a reused reader / writer object, a memo with a coarse key, a set() making an "
             "order hash-dependent, grouping by key instead of by run, `>` turned into `>=` on the 32-column limit, comparing times after rounding to milliseconds. ")
# optional second argument "w6": the wave-6 wording (interactions, options, rarely taken paths)
if len(sys.argv) > 2 and sys.argv[2] == "w6":
    extra = ("Look in particular for: the interaction of two features or two options that are each fine alone; rarely used constructor / method options and "
             "public helpers that the property's wording covers; code paths only reached by unusual but legal input structure (nesting, ordering, repetition, "
             "emptiness, several languages, mixed units or notations); the seam between two modules (what one hands to the other); and conversions done in two steps "
             "where a value is rounded, truncated, stripped or re-encoded once too often or once too rarely. Avoid the over-familiar patterns: state left on a reused "
             "reader / writer object, a memo with a coarse key, a set() making an order hash-dependent, grouping by key instead of by run, `>` turned into `>=` on the 32-column limit. ")
# optional second argument "w5": the wave-5 wording, which steers away from the patterns that dominated waves 1-4
if len(sys.argv) > 2 and sys.argv[2] == "w5":
    extra = ("Do NOT use these over-familiar patterns unless the site is truly unusual: state left on a reader / writer object that is used twice; "
             "a memo / cache whose key is too coarse; a set() that makes an order depend on hashing; grouping by key instead of by run. "
             "Go instead for arithmetic and boundary slips, unit or axis mix-ups, changed regular expressions, reordered or weakened conditions, wrong defaults, "
             "mishandled optional / empty fields, off-by-one in indexes or slices, a helper applied at the wrong level (per line vs per caption vs per set), "
             "an early return or a `break` / `continue` in the wrong place, string handling of unusual but legal characters. ")
VERIF = os.path.dirname(os.path.dirname(os.path.abspath(__file__)))
p = [json.loads(l) for l in open(os.path.join(VERIF, "properties.jsonl")) if json.loads(l)["id"] == pid][0]
q = p.get("quantifier", {})
prop = f"{p['id']}: {p['title']}\n\n{p['statement']}\n\nQuantified over: {q.get('text') or ' x '.join(q.get('over', []))}"
print(f"""You are helping to evaluate how well a library's behavioural guarantees can be checked. You work ONLY inside the git worktree /tmp/wt_{pid} (a checkout of the Python library pbs/pycaption, which reads and writes video caption formats: SCC/CEA-608, DFXP/TTML, SAMI, WebVTT, SRT, MicroDVD). Do not read or write anything under /repo or /verif, and do not touch any other /tmp/wt_* directory.

Here is a semantic property the library is supposed to satisfy:

---
{prop}
---

Your task: produce THREE different, independent, realistic source changes to the library (files under /tmp/wt_{pid}/pycaption/ only - never edit tests) such that each change:
  1. BREAKS the property above (for some inputs / configurations / histories the property no longer holds),
  2. still imports/compiles, and the EXISTING test suite still passes completely with it:
        cd /tmp/wt_{pid} && /venv/bin/python -m pytest -q -p no:cacheprovider --continue-on-collection-errors
     (the unmodified tree gives "217 passed" plus 2 pre-existing collection errors in tests/test_dfxp.py and tests/test_geometry.py - that is the baseline to match exactly),
  3. looks like a plausible mistake or careless refactoring a developer could really commit (an off-by-one, a wrong operand, a dropped copy, a cached / hoisted container, a reordered condition, a changed regex, a boundary comparison, state that is not reset, ...), not sabotage that announces itself,
  4. needs SOMETHING SPECIFIC to manifest: an unusual input (a boundary value, a particular character or spelling, a particular combination of fields), a multi-step sequence of operations, a second use of an object, a particular ordering, or two cooperating sites that each look fine alone. Ordinary everyday use (the typical happy path a smoke test would run) should still behave correctly, so that the breakage would not be noticed at once.
The three changes should affect different mechanisms / code sites (ideally different files); where the property allows, spread them: one on the side that parses / reads, one on the side that writes / converts, one in shared machinery (base classes, value objects, helpers, state kept on objects or modules). {extra}Prefer less obvious sites: look beyond the first function that comes to mind - state kept between calls, rarely taken branches, interactions between two features, boundary values deep inside helper functions.

For each change i in (1, 2, 3) deliver, inside /tmp/wt_{pid}/_out/ :
  - patch{{i}}.diff   : `git diff` of the change against the pristine checkout (apply-able with `git apply` at the repository root; only files under pycaption/),
  - demo{{i}}.py      : a small self-contained program, run as  `cd /tmp/wt_{pid} && PYTHONPATH=/tmp/wt_{pid} /venv/bin/python _out/demo{{i}}.py` , that exits with status 1 (printing what went wrong) when the change is applied and exits 0 on the pristine tree. It must test the property's observable behaviour through the public API (not internal attributes),
  - notes{{i}}.md     : 5-10 lines: what was changed, which inputs/sequence make it manifest, why ordinary use does not show it.
Work procedure: make change 1, run the full test suite (must match the baseline), run the demo (must fail), save the diff, then `git checkout -- pycaption` to restore the pristine tree and confirm the demo passes; then do the same for changes 2 and 3. Leave the worktree pristine (no modifications outside _out/) when you finish. Use /venv/bin/python for everything (it has the library's dependencies). There is no network access.

In your final message state for each change: the one-line summary, the pytest summary line you observed with the change applied, and the demo's exit codes with and without the change.""")
